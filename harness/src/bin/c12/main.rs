//! C12 — snapshot export -> import reproduces the graph.
//!
//! Bounded-exhaustive inputs (DESIGN §C12): every graph with <= 2 nodes / <= 2 relationships
//! (self loops, parallel relationships, both types), label sets over {A,B} including none, one
//! property from a boundary-value alphabet on a node or on a relationship, built four ways
//! (Cypher, store API, stub API + finish_bulk_load, mixed adjacency tiers), plus histories
//! that leave several versions / deleted entities, plus hierarchy index declarations.
//! Each is exported (gzip level 0 and the default level), imported into an empty store and the
//! two full-graph dumps are compared up to isomorphism (value types included); the imported
//! store's secondary views (label index, Cypher, adjacency, type index) must agree with it.
#[path = "shared.rs"]
mod shared;

use rayon::prelude::*;
use samyama::graph::{EdgeType, GraphStore, Label, NodeId, PropertyValue};
#[allow(unused_imports)]
use std::collections::BTreeSet as _Unused;
use samyama::index::hierarchy::{HierarchySpec, RollupOp};
use serde_json::{json, Value as J};
use shared::*;
use std::collections::{BTreeMap, BTreeSet, HashMap};
use svmc::engine::ctx::guarded;
use svmc::{run_check, Ctx, Level, Tier};

const LABELS: [&str; 2] = ["A", "B"];
const TYPES: [&str; 2] = ["R", "S"];
const KEYS: [&str; 3] = ["p", "q", "u"];

// ---------------------------------------------------------------------------------------------
// the value alphabet
// ---------------------------------------------------------------------------------------------
fn s(x: &str) -> PropertyValue {
    PropertyValue::String(x.to_string())
}
fn map(kv: Vec<(&str, PropertyValue)>) -> PropertyValue {
    PropertyValue::Map(kv.into_iter().map(|(k, v)| (k.to_string(), v)).collect::<HashMap<_, _>>())
}
fn values() -> Vec<(&'static str, PropertyValue)> {
    use PropertyValue as P;
    vec![
        ("str_plain", s("x")),
        ("str_padded", s(" x ")),
        ("str_empty", s("")),
        ("str_space", s(" ")),
        ("str_unicode", s("é😀")),
        ("str_newline", s("\n")),
        ("str_tab_lead", s("\ty")),
        ("str_quote", s("a\"b")),
        ("str_backslash", s("a\\b'c")),
        ("str_digits", s("1")),
        ("int_0", P::Integer(0)),
        ("int_1", P::Integer(1)),
        ("int_neg1", P::Integer(-1)),
        ("int_max", P::Integer(i64::MAX)),
        ("int_min", P::Integer(i64::MIN)),
        ("float_1", P::Float(1.0)),
        ("float_half", P::Float(0.5)),
        ("float_negzero", P::Float(-0.0)),
        ("float_1e19", P::Float(1e19)),
        // whole floats in and at the edge of the i64 range: a writer that prints them without a
        // fraction (or through an integer) brings them back as Integer, or saturated
        ("float_2p53", P::Float(9_007_199_254_740_992.0)),
        ("float_1e18", P::Float(1e18)),
        ("float_neg2p63", P::Float(-9_223_372_036_854_775_808.0)),
        ("float_2p63", P::Float(9_223_372_036_854_775_808.0)),
        ("float_subnormal", P::Float(5e-324)),
        ("float_max", P::Float(f64::MAX)),
        ("float_nan", P::Float(f64::NAN)),
        ("float_inf", P::Float(f64::INFINITY)),
        ("float_neginf", P::Float(f64::NEG_INFINITY)),
        ("bool_true", P::Boolean(true)),
        ("bool_false", P::Boolean(false)),
        ("list_empty", P::Array(vec![])),
        ("list_mixed", P::Array(vec![P::Integer(1), s("a"), P::Float(2.0), P::Boolean(true)])),
        ("list_nested", P::Array(vec![P::Array(vec![P::Integer(1)]), P::Array(vec![P::Float(2.0)])])),
        ("list_floats", P::Array(vec![P::Float(1.0), P::Float(2.5)])),
        ("list_padded_str", P::Array(vec![s(" x ")])),
        ("list_nan", P::Array(vec![P::Float(f64::NAN), P::Integer(1)])),
        ("map_empty", map(vec![])),
        ("map_nested", map(vec![("a", P::Integer(1)), ("b", map(vec![("c", s("y")), ("d", P::Float(1.0))]))])),
        ("map_padded_str", map(vec![("a", s(" y"))])),
        ("map_inf", map(vec![("a", P::Float(f64::INFINITY))])),
        ("map_type_tag", map(vec![("__type", s("DateTime")), ("value", P::Integer(5))])),
        ("vector", P::Vector(vec![1.0, 0.5, -0.0, 0.1])),
        ("vector_empty", P::Vector(vec![])),
        ("vector_nan", P::Vector(vec![f32::NAN, 1.0])),
        ("datetime_0", P::DateTime(0)),
        ("datetime_now", P::DateTime(1_700_000_000_000)),
        ("datetime_neg", P::DateTime(-1)),
        ("duration", P::Duration { months: 1, days: 2, seconds: 3, nanos: 4 }),
        ("duration_zero", P::Duration { months: 0, days: 0, seconds: 0, nanos: 0 }),
        ("duration_extreme", P::Duration { months: i64::MIN, days: i64::MAX, seconds: -1, nanos: i32::MIN }),
    ]
}

// ---------------------------------------------------------------------------------------------
// case space
// ---------------------------------------------------------------------------------------------
#[derive(Clone, Debug)]
enum Place {
    None,
    Node(usize),
    Edge(usize),
}
#[derive(Clone, Copy, Debug, PartialEq, Eq)]
enum Tail {
    None,
    /// bump version; set n0.q = 2  -> two stored versions of node 0
    V2,
    /// bump; set n0.q=2; bump; set n0.q=3 -> three versions
    V3,
    /// set n0.q = 1, remove_node_property(n0, q)
    Rm,
    /// create X:A, X-[R]->n0, delete X (tombstone + free lists in the exported store)
    Del,
    /// as Del, then create Y:B reusing X's id with property u
    Reuse,
    /// bump; add label B to n0 through add_label_to_node
    BumpLabel,
}
const TAILS: [Tail; 6] = [Tail::V2, Tail::V3, Tail::Rm, Tail::Del, Tail::Reuse, Tail::BumpLabel];

#[derive(Clone, Debug)]
struct HierCase {
    /// 0 = empty graph, 1 = chain c-[R]->b-[R]->a with measure property p (labels A) and one S edge
    graph: usize,
    edge_types: Vec<&'static str>,
    reverse: bool,
    measure: Option<(Option<&'static str>, &'static str)>,
    ops: Vec<&'static str>,
    via_cypher: bool,
}

#[derive(Clone, Debug)]
enum Case {
    Graph { shape: usize, labels: Vec<usize>, value: Option<usize>, place: Place, builder: Builder, tail: Tail, level: Option<u32> },
    Hier { h: HierCase, level: Option<u32> },
}

/// all (n, edges) with n <= 2 nodes and <= 2 relationships, simplest first
fn shapes() -> Vec<(usize, Vec<(usize, usize, usize)>)> {
    let mut out = vec![];
    for n in 0..=2usize {
        let mut kinds = vec![];
        for a in 0..n {
            for b in 0..n {
                for t in 0..2 {
                    kinds.push((a, b, t));
                }
            }
        }
        for k in 0..=2usize {
            if k > 0 && kinds.is_empty() {
                continue;
            }
            for ms in svmc::engine::odometer::multisets(kinds.len(), k) {
                out.push((n, ms.iter().map(|&i| kinds[i]).collect()));
            }
        }
    }
    // boundary sizes: many parallel relationships between two nodes, at and around the word sizes
    // a bit set over relationship ids would use (seeded change C12 sized such a set one word short
    // when the highest id is a multiple of 64 and exported that relationship twice)
    for k in [63usize, 64, 65, 128] {
        out.push((2, (0..k).map(|i| (0usize, 1usize, i % 2)).collect()));
    }
    out
}

fn label_set(mask: usize) -> Vec<String> {
    // mask 3 is generated in both orders elsewhere? no: label *sets*; order of mention A,B
    (0..2).filter(|i| mask & (1 << i) != 0).map(|i| LABELS[i].to_string()).collect()
}

fn spec_of(shape: &(usize, Vec<(usize, usize, usize)>), labels: &[usize], value: Option<&PropertyValue>, place: &Place) -> GraphSpec {
    let mut g = GraphSpec::default();
    for i in 0..shape.0 {
        g.nodes.push(NodeSpec { labels: label_set(labels[i]), props: vec![] });
    }
    for &(a, b, t) in &shape.1 {
        g.edges.push(EdgeSpec { src: a, dst: b, ty: TYPES[t].to_string(), props: vec![] });
    }
    if let Some(v) = value {
        match place {
            Place::Node(i) => g.nodes[*i].props.push(("p".into(), v.clone())),
            Place::Edge(i) => g.edges[*i].props.push(("p".into(), v.clone())),
            Place::None => {}
        }
    }
    g
}

fn gen_cases(tier: Tier) -> (Vec<Case>, BTreeMap<String, u64>) {
    let shapes = shapes();
    let vals = values();
    let levels = [Some(0u32), None];
    let mut cases = vec![];
    let mut card: BTreeMap<String, u64> = BTreeMap::new();
    let all_label_vecs = |n: usize| -> Vec<Vec<usize>> { svmc::engine::odometer::mixed(vec![4; n]).collect() };
    // family 1a: every shape x every label assignment x {no property, padded string on node 0 / rel 0} x builder x level
    // family 1b: every value x {node 0, relationship 0} x builder x level on (quick) two shapes / (thorough) every shape,
    //            labels (quick) {A} per node / (thorough) every assignment
    for (si, sh) in shapes.iter().enumerate() {
        for labels in all_label_vecs(sh.0) {
            if sh.1.len() > 2 && !labels.iter().all(|&m| m == 1) {
                continue; // boundary-size shapes: one label assignment
            }
            let mut placements: Vec<(Option<usize>, Place)> = vec![(None, Place::None)];
            let simple_labels = labels.iter().all(|&m| m == 1);
            let quick_value_shape = (sh.0 == 1 && sh.1.is_empty()) || (sh.0 == 2 && sh.1 == vec![(0, 1, 0)]);
            let full_values = match tier {
                Tier::Thorough => true,
                Tier::Quick => simple_labels && quick_value_shape,
            };
            for (vi, _) in vals.iter().enumerate() {
                if !full_values && vals[vi].0 != "str_padded" {
                    continue;
                }
                if sh.0 > 0 {
                    placements.push((Some(vi), Place::Node(0)));
                }
                if !sh.1.is_empty() {
                    placements.push((Some(vi), Place::Edge(0)));
                }
            }
            for (v, pl) in placements {
                for b in BUILDERS {
                    for level in levels {
                        cases.push(Case::Graph { shape: si, labels: labels.clone(), value: v, place: pl.clone(), builder: b, tail: Tail::None, level });
                        *card.entry("graphs".into()).or_default() += 1;
                    }
                }
            }
        }
    }
    // family 2: histories (API-built), on one node / two nodes + one relationship, labels {A} / {A,B} on node 0
    for (si, sh) in shapes.iter().enumerate() {
        let pick = (sh.0 == 1 && sh.1.is_empty()) || (sh.0 == 2 && sh.1 == vec![(0, 1, 0)]) || (tier == Tier::Thorough && sh.0 >= 1 && sh.1.len() <= 1);
        if !pick {
            continue;
        }
        for l0 in [0usize, 1, 3] {
            let mut labels = vec![1usize; sh.0];
            labels[0] = l0;
            for tail in TAILS {
                for b in [Builder::Api, Builder::MixedTiers, Builder::Cypher] {
                    for level in levels {
                        // a first property p = 1 on node 0 so that versions differ in more than q
                        cases.push(Case::Graph { shape: si, labels: labels.clone(), value: Some(vals.iter().position(|v| v.0 == "int_1").unwrap()), place: Place::Node(0), builder: b, tail, level });
                        *card.entry("histories".into()).or_default() += 1;
                    }
                }
            }
        }
    }
    // family 3: hierarchy declarations
    let type_sets: Vec<Vec<&'static str>> = vec![vec!["R"], vec!["S"], vec!["R", "S"]];
    let op_sets: Vec<Vec<&'static str>> = {
        let ops = ["sum", "count", "min", "max"];
        let mut v = vec![];
        for m in 1..16u32 {
            if tier == Tier::Quick && m.count_ones() > 1 && m != 15 && m != 5 {
                continue;
            }
            v.push((0..4).filter(|i| m & (1 << i) != 0).map(|i| ops[i]).collect());
        }
        v
    };
    for graph in 0..2usize {
        for ets in &type_sets {
            for reverse in [false, true] {
                let mut measures: Vec<(Option<(Option<&'static str>, &'static str)>, Vec<&'static str>)> = vec![(None, vec![])];
                for ml in [None, Some("A")] {
                    for ops in &op_sets {
                        measures.push((Some((ml, "p")), ops.clone()));
                    }
                }
                for (measure, ops) in measures {
                    for via_cypher in [false, true] {
                        for level in levels {
                            cases.push(Case::Hier { h: HierCase { graph, edge_types: ets.clone(), reverse, measure, ops: ops.clone(), via_cypher }, level });
                            *card.entry("hierarchies".into()).or_default() += 1;
                        }
                    }
                }
            }
        }
    }
    (cases, card)
}

// ---------------------------------------------------------------------------------------------
// building a case
// ---------------------------------------------------------------------------------------------
fn apply_tail(store: &mut GraphStore, ids: &[NodeId], tail: Tail) -> Result<(), String> {
    let n0 = *ids.first().ok_or("tail needs a node")?;
    let e = |r: samyama::graph::GraphResult<()>| r.map_err(|e| e.to_string());
    match tail {
        Tail::None => {}
        Tail::V2 => {
            bump_version(store);
            e(store.set_node_property("default", n0, "q", PropertyValue::Integer(2)))?;
        }
        Tail::V3 => {
            bump_version(store);
            e(store.set_node_property("default", n0, "q", PropertyValue::Integer(2)))?;
            bump_version(store);
            e(store.set_node_property("default", n0, "q", PropertyValue::Integer(3)))?;
        }
        Tail::Rm => {
            e(store.set_node_property("default", n0, "q", PropertyValue::Integer(1)))?;
            store.remove_node_property(n0, "q");
        }
        Tail::Del | Tail::Reuse => {
            let x = store.create_node("A");
            store.create_edge(x, n0, "R").map_err(|e| e.to_string())?;
            e(store.set_node_property("default", x, "u", PropertyValue::String("gone".into())))?;
            store.delete_node("default", x).map_err(|e| e.to_string())?;
            if tail == Tail::Reuse {
                let y = store.create_node("B");
                e(store.set_node_property("default", y, "u", PropertyValue::Integer(7)))?;
                store.create_edge(n0, y, "S").map_err(|e| e.to_string())?;
            }
        }
        Tail::BumpLabel => {
            bump_version(store);
            e(store.add_label_to_node("default", n0, "B"))?;
        }
    }
    Ok(())
}

fn build_hier(store: &mut GraphStore, h: &HierCase) -> Result<(), String> {
    if h.graph == 1 {
        let a = store.create_node("A");
        let b = store.create_node("A");
        let c = store.create_node("A");
        for (n, v) in [(a, 1i64), (b, 2), (c, 4)] {
            store.set_node_property("default", n, "p", PropertyValue::Integer(v)).map_err(|e| e.to_string())?;
        }
        store.create_edge(c, b, "R").map_err(|e| e.to_string())?;
        store.create_edge(b, a, "R").map_err(|e| e.to_string())?;
        store.create_edge(c, a, "S").map_err(|e| e.to_string())?;
    }
    if h.via_cypher {
        let types = h.edge_types.join("|");
        let pat = if h.reverse { format!("()<-[:{types}]-()") } else { format!("()-[:{types}]->()") };
        let mut q = format!("CREATE HIERARCHY INDEX h ON {pat}");
        if let Some((ml, mp)) = &h.measure {
            match ml {
                Some(l) => q.push_str(&format!(" MEASURE {l}.{mp}")),
                None => q.push_str(&format!(" MEASURE {mp}")),
            }
            q.push_str(&format!(" AGGREGATE {}", h.ops.join(", ")));
        }
        let query = samyama::parse_query(&q).map_err(|e| format!("parse `{q}`: {e}"))?;
        let mut ex = samyama::query::executor::MutQueryExecutor::new(store, "default".to_string());
        ex.execute(&query).map_err(|e| format!("exec `{q}`: {e}"))?;
    } else {
        let mut spec = HierarchySpec::new("h", h.edge_types.iter().map(|t| EdgeType::new(*t)).collect());
        spec.reverse = h.reverse;
        if let Some((ml, mp)) = &h.measure {
            let ops: Vec<RollupOp> = h.ops.iter().filter_map(|o| RollupOp::parse(o)).collect();
            spec = spec.with_measure(ml.map(Label::new), mp.to_string(), ops);
        }
        let mgr = std::sync::Arc::clone(&store.hierarchy_index);
        mgr.create(store, spec).map_err(|e| format!("create hierarchy: {e}"))?;
    }
    Ok(())
}

fn build_case(c: &Case, shapes: &[(usize, Vec<(usize, usize, usize)>)], vals: &[(&'static str, PropertyValue)]) -> Result<(GraphStore, J), String> {
    let mut store = GraphStore::new();
    match c {
        Case::Graph { shape, labels, value, place, builder, tail, .. } => {
            let spec = spec_of(&shapes[*shape], labels, value.map(|i| &vals[i].1), place);
            let ids = build(&mut store, &spec, *builder)?;
            if *tail != Tail::None {
                apply_tail(&mut store, &ids, *tail)?;
            }
            Ok((store, json!({"spec": spec_json(&spec), "value": value.map(|i| vals[i].0), "builder": format!("{:?}", builder), "tail": format!("{:?}", tail)})))
        }
        Case::Hier { h, .. } => {
            build_hier(&mut store, h)?;
            Ok((store, json!({"hierarchy": format!("{:?}", h)})))
        }
    }
}

fn case_json(c: &Case) -> J {
    match c {
        Case::Graph { shape, labels, value, place, builder, tail, level } => json!({
            "family": "graph", "shape": shape, "labels": labels, "value": value,
            "place": match place { Place::None => json!(null), Place::Node(i) => json!({"node": i}), Place::Edge(i) => json!({"edge": i}) },
            "builder": format!("{:?}", builder), "tail": format!("{:?}", tail), "level": level }),
        Case::Hier { h, level } => json!({
            "family": "hier", "graph": h.graph, "edge_types": h.edge_types, "reverse": h.reverse,
            "measure_label": h.measure.and_then(|m| m.0), "measure": h.measure.map(|m| m.1), "ops": h.ops, "via_cypher": h.via_cypher, "level": level }),
    }
}

fn case_from_json(j: &J) -> Option<Case> {
    let level = j["level"].as_u64().map(|x| x as u32);
    fn leak(s: &str) -> &'static str {
        Box::leak(s.to_string().into_boxed_str())
    }
    match j["family"].as_str()? {
        "graph" => {
            let builder = BUILDERS.into_iter().find(|b| format!("{:?}", b) == j["builder"].as_str().unwrap_or(""))?;
            let tail = [Tail::None].into_iter().chain(TAILS).find(|t| format!("{:?}", t) == j["tail"].as_str().unwrap_or(""))?;
            let place = if let Some(i) = j["place"]["node"].as_u64() {
                Place::Node(i as usize)
            } else if let Some(i) = j["place"]["edge"].as_u64() {
                Place::Edge(i as usize)
            } else {
                Place::None
            };
            Some(Case::Graph {
                shape: j["shape"].as_u64()? as usize,
                labels: j["labels"].as_array()?.iter().map(|x| x.as_u64().unwrap_or(0) as usize).collect(),
                value: j["value"].as_u64().map(|x| x as usize),
                place,
                builder,
                tail,
                level,
            })
        }
        "hier" => Some(Case::Hier {
            h: HierCase {
                graph: j["graph"].as_u64()? as usize,
                edge_types: j["edge_types"].as_array()?.iter().map(|x| leak(x.as_str().unwrap_or(""))).collect(),
                reverse: j["reverse"].as_bool()?,
                measure: j["measure"].as_str().map(|m| (j["measure_label"].as_str().map(leak), leak(m))),
                ops: j["ops"].as_array()?.iter().map(|x| leak(x.as_str().unwrap_or(""))).collect(),
                via_cypher: j["via_cypher"].as_bool()?,
            },
            level,
        }),
        _ => None,
    }
}

// ---------------------------------------------------------------------------------------------
// classification: which documented-by-this-check transformation of the *expected* graph
// explains what the import produced (region predicate + symptom), simplest explanation first
// ---------------------------------------------------------------------------------------------
#[derive(Clone, Copy, Debug, PartialEq, Eq, PartialOrd, Ord)]
enum Norm {
    /// region: a string value (any nesting depth) with leading/trailing whitespace; symptom: it comes back trimmed
    Trim,
    /// region: a node without labels; symptom: it comes back with the single label ""
    EmptyLabel,
    /// region: a node with > 1 stored version; symptom: one imported node per stored version
    Versions,
    /// region: a non-finite float (scalar, in a list/map, in a vector); symptom: null / absent / dropped element
    NonFinite,
    /// region: a map value carrying a `__type` key that the format uses as a tag; symptom: read back as the tagged type
    TypeTag,
}
const NORMS: [Norm; 5] = [Norm::Trim, Norm::EmptyLabel, Norm::Versions, Norm::NonFinite, Norm::TypeTag];
impl Norm {
    fn sig(&self) -> &'static str {
        match self {
            Norm::Trim => "roundtrip:string_whitespace:trimmed",
            Norm::EmptyLabel => "roundtrip:unlabelled_node:gains_empty_label",
            Norm::Versions => "roundtrip:multi_version_node:one_node_per_version",
            Norm::NonFinite => "roundtrip:non_finite_float:becomes_null",
            Norm::TypeTag => "roundtrip:map_with___type_key:read_as_tagged_type",
        }
    }
}

fn map_value(v: &PropertyValue, n: Norm) -> PropertyValue {
    use PropertyValue as P;
    match (n, v) {
        (Norm::Trim, P::String(s)) => P::String(s.trim().to_string()),
        (Norm::NonFinite, P::Float(f)) if !f.is_finite() => P::Null,
        (Norm::NonFinite, P::Vector(x)) => P::Vector(x.iter().copied().filter(|f| f.is_finite()).collect()),
        (_, P::Array(a)) => P::Array(a.iter().map(|x| map_value(x, n)).collect()),
        (Norm::TypeTag, P::Map(m)) if matches!(m.get("__type"), Some(P::String(t)) if t == "DateTime") && matches!(m.get("value"), Some(P::Integer(_))) => {
            match m.get("value") {
                Some(P::Integer(i)) => P::DateTime(*i),
                _ => unreachable!(),
            }
        }
        (_, P::Map(m)) => P::Map(m.iter().map(|(k, x)| (k.clone(), map_value(x, n))).collect()),
        _ => v.clone(),
    }
}
fn map_props(p: &Props, n: Norm) -> Props {
    p.iter().map(|(k, v)| (k.clone(), PV::new(map_value(&v.0, n)))).filter(|(_, v)| !v.0.is_null()).collect()
}

fn apply_norm(p: &Plain, src: &Dump, n: Norm) -> Plain {
    let mut out = p.clone();
    match n {
        Norm::Trim | Norm::NonFinite | Norm::TypeTag => {
            for nd in &mut out.nodes {
                nd.1 .1 = map_props(&nd.1 .1, n);
            }
            for e in &mut out.edges {
                e.3 = map_props(&e.3, n);
            }
        }
        Norm::EmptyLabel => {
            for nd in &mut out.nodes {
                if nd.1 .0.is_empty() {
                    nd.1 .0.insert(String::new());
                }
            }
        }
        Norm::Versions => {
            // one node per stored version: that version's row properties plus the (current) column
            // values of keys the row does not have; relationships attach to the newest
            let mut nodes = vec![];
            for nd in &out.nodes {
                let vers: Vec<_> = src.versions.iter().filter(|v| v.0 == nd.0).collect();
                for (k, v) in vers.iter().enumerate() {
                    let last = k + 1 == vers.len();
                    let id = if last { nd.0 } else { nd.0 + 1_000_000 * (k as u64 + 1) };
                    let mut props = v.2.clone();
                    for (key, val) in &nd.1 .1 {
                        props.entry(key.clone()).or_insert_with(|| val.clone());
                    }
                    nodes.push((id, (v.1.clone(), props)));
                }
            }
            out.nodes = nodes;
        }
    }
    out
}

struct Eval {
    sigs: Vec<(String, String)>,
    nontrivial: bool,
    unjudged: Option<String>,
    not_a_case: Option<String>,
    src_key: String,
    detail: J,
}

fn hier_diffs(src: &[HDecl], dst: &[HDecl]) -> Vec<(String, String)> {
    let mut out = vec![];
    for h in src {
        match dst.iter().find(|d| d.name == h.name) {
            None => out.push(("roundtrip:hierarchy:declaration_missing".to_string(), format!("hierarchy index {:?} is not declared in the imported store", h.name))),
            Some(d) => {
                if d.edge_types != h.edge_types {
                    out.push(("roundtrip:hierarchy:edge_types_differ".into(), format!("edge types {:?} -> {:?}", h.edge_types, d.edge_types)));
                }
                if d.reverse != h.reverse {
                    out.push(("roundtrip:hierarchy_reverse:orientation_lost".into(), format!("reverse {} -> {}", h.reverse, d.reverse)));
                }
                if d.measure_prop != h.measure_prop {
                    out.push(("roundtrip:hierarchy:measure_property_differs".into(), format!("measure {:?} -> {:?}", h.measure_prop, d.measure_prop)));
                }
                if d.measure_label != h.measure_label {
                    out.push(("roundtrip:hierarchy_measure_label:label_lost".into(), format!("measure label {:?} -> {:?}", h.measure_label, d.measure_label)));
                }
                if d.ops != h.ops {
                    out.push(("roundtrip:hierarchy_ops:aggregates_differ".into(), format!("aggregates {:?} -> {:?}", h.ops, d.ops)));
                }
            }
        }
    }
    for d in dst {
        if !src.iter().any(|h| h.name == d.name) {
            out.push(("roundtrip:hierarchy:declaration_invented".into(), format!("imported store declares {:?} which the source did not", d.name)));
        }
    }
    out
}

fn evaluate(c: &Case, shapes: &[(usize, Vec<(usize, usize, usize)>)], vals: &[(&'static str, PropertyValue)]) -> Eval {
    let mut ev = Eval { sigs: vec![], nontrivial: false, unjudged: None, not_a_case: None, src_key: String::new(), detail: json!(null) };
    let built = guarded(|| build_case(c, shapes, vals));
    let (src, desc) = match built {
        Ok(Ok(x)) => x,
        Ok(Err(e)) => {
            ev.not_a_case = Some(e);
            return ev;
        }
        Err(p) => {
            ev.not_a_case = Some(format!("builder panicked: {p}"));
            return ev;
        }
    };
    let level = match c {
        Case::Graph { level, .. } | Case::Hier { level, .. } => *level,
    };
    let dsrc = dump(&src, &LABELS, &KEYS);
    ev.src_key = {
        use std::hash::{Hash, Hasher};
        let text = format!("{:?}|{:?}|{:?}", Plain::of(&dsrc), dsrc.hier, dsrc.versions.len());
        let mut h1 = std::collections::hash_map::DefaultHasher::new();
        text.hash(&mut h1);
        let mut h2 = std::collections::hash_map::DefaultHasher::new();
        (&text, 0x9e3779b97f4a7c15u64).hash(&mut h2);
        format!("{:016x}{:016x}", h1.finish(), h2.finish())
    };
    // the source must itself be a well-defined graph for the comparison to mean anything
    let inc = dsrc.inconsistencies(!dsrc.multi_version());
    if !inc.is_empty() {
        ev.unjudged = Some(format!("source store's own views disagree ({}): {}", inc[0].0, inc[0].1));
        return ev;
    }
    let bytes = match export_bytes(&src, level) {
        Ok(b) => b,
        Err(e) => {
            ev.sigs.push(("export:refused".into(), format!("export failed: {e}")));
            ev.detail = json!({"case": desc, "source": dsrc.to_json()});
            return ev;
        }
    };
    let mut dst = GraphStore::new();
    let imp = guarded(|| samyama::snapshot::import_tenant(&mut dst, std::io::Cursor::new(&bytes)).map(|s| (s.node_count, s.edge_count)).map_err(|e| e.to_string()));
    match imp {
        Ok(Ok(_)) => {}
        Ok(Err(e)) => {
            ev.sigs.push(("import:refused_own_export".into(), format!("import of the store's own export failed: {e}")));
            ev.detail = json!({"case": desc, "source": dsrc.to_json()});
            return ev;
        }
        Err(p) => {
            ev.sigs.push(("import:panic".into(), format!("import panicked: {p}")));
            ev.detail = json!({"case": desc, "source": dsrc.to_json()});
            return ev;
        }
    }
    let ddst = dump(&dst, &LABELS, &KEYS);
    ev.nontrivial = !dsrc.nodes.is_empty() && !ddst.nodes.is_empty();
    ev.detail = json!({"case": desc, "source": dsrc.to_json(), "imported": ddst.to_json()});
    let want = Plain::of(&dsrc);
    let got = Plain::of(&ddst);
    // 1. primary view up to isomorphism, explained by the smallest set of known transformations
    if iso(&want, &got).is_none() {
        let mut explained = false;
        'outer: for size in 1..=NORMS.len() {
            for mask in 1u32..(1 << NORMS.len()) {
                if mask.count_ones() as usize != size {
                    continue;
                }
                let mut w = want.clone();
                // Versions first (it rebuilds the node list), then value/label maps
                for n in [Norm::Versions, Norm::Trim, Norm::EmptyLabel, Norm::NonFinite, Norm::TypeTag] {
                    let i = NORMS.iter().position(|x| *x == n).unwrap();
                    if mask & (1 << i) != 0 {
                        w = apply_norm(&w, &dsrc, n);
                    }
                }
                if iso(&w, &got).is_some() {
                    for (i, n) in NORMS.iter().enumerate() {
                        if mask & (1 << i) != 0 {
                            ev.sigs.push((n.sig().to_string(), format!("imported graph differs from the exported one: {}", n.sig())));
                        }
                    }
                    explained = true;
                    break 'outer;
                }
            }
        }
        if !explained {
            let view = if want.nodes.len() != got.nodes.len() {
                "node_count"
            } else if want.edges.len() != got.edges.len() {
                "relationship_count"
            } else {
                let mut a: Vec<_> = want.nodes.iter().map(|n| &n.1).collect();
                let mut b: Vec<_> = got.nodes.iter().map(|n| &n.1).collect();
                a.sort();
                b.sort();
                if a != b {
                    "node_labels_or_properties"
                } else {
                    "relationships"
                }
            };
            ev.sigs.push((format!("unclassified:{view}"), format!("imported graph is not isomorphic to the exported one ({view}): want {} got {}", want.to_json(), got.to_json())));
        }
    }
    // 2. hierarchy declarations
    ev.sigs.extend(hier_diffs(&dsrc.hier, &ddst.hier));
    // 3. the imported store's own views (label index through API and Cypher, adjacency, type index, counts)
    for (view, msg) in ddst.inconsistencies(true) {
        if view == "label_index" {
            let all_secondary = ddst.nodes.iter().filter(|n| n.found_by != n.labels).all(|n| n.labels.len() >= 2 && n.found_by.len() == 1 && n.found_by.is_subset(&n.labels));
            if all_secondary {
                ev.sigs.push(("roundtrip:multi_label_node:only_one_label_indexed".into(), msg));
            } else {
                ev.sigs.push(("unclassified:imported_label_index".into(), msg));
            }
        } else {
            ev.sigs.push((format!("unclassified:imported_view:{view}"), msg));
        }
    }
    ev.sigs.sort();
    ev.sigs.dedup_by(|a, b| a.0 == b.0);
    ev
}

fn main() {
    run_check("C12", Level::Exploration, |ctx| {
        silence_stderr();
        tune_malloc();
        let shapes = shapes();
        let vals = values();
        if let Some(p) = &ctx.replay {
            replay(ctx, p, &shapes, &vals);
            return;
        }
        let (cases, card) = gen_cases(ctx.tier);
        let results: Vec<(Vec<String>, bool, Option<String>, Option<String>, String)> = cases
            .par_iter()
            .map(|c| {
                let e = evaluate(c, &shapes, &vals);
                (e.sigs.into_iter().map(|s| s.0).collect(), e.nontrivial, e.unjudged, e.not_a_case, e.src_key)
            })
            .collect();
        let mut evaluated = 0u64;
        let mut nontrivial = 0u64;
        let mut not_case: BTreeMap<String, u64> = BTreeMap::new();
        let mut unjudged: BTreeMap<String, u64> = BTreeMap::new();
        let mut distinct_src: BTreeSet<String> = BTreeSet::new();
        let mut seen_sig: BTreeSet<String> = BTreeSet::new();
        let mut clean = 0u64;
        // witness per signature: the first case showing only that signature, else the first showing it
        let mut witness_idx: BTreeMap<String, (usize, bool)> = BTreeMap::new();
        for (i, (sigs, ..)) in results.iter().enumerate() {
            for sg in sigs {
                let pure = sigs.len() == 1;
                match witness_idx.get(sg) {
                    None => {
                        witness_idx.insert(sg.clone(), (i, pure));
                    }
                    Some((_, false)) if pure => {
                        witness_idx.insert(sg.clone(), (i, true));
                    }
                    _ => {}
                }
            }
        }
        for (sg, (i, _)) in &witness_idx {
            let e = evaluate(&cases[*i], &shapes, &vals);
            let msg = e.sigs.iter().find(|x| &x.0 == sg).map(|x| x.1.clone()).unwrap_or_default();
            ctx.violation(sg, msg, json!({"case": case_json(&cases[*i]), "detail": e.detail}));
            seen_sig.insert(sg.clone());
        }
        let mut first_counted: BTreeSet<String> = BTreeSet::new();
        for (i, (sigs, nt, unj, nac, key)) in results.iter().enumerate() {
            if let Some(r) = nac {
                *not_case.entry(r.clone()).or_default() += 1;
                continue;
            }
            if let Some(r) = unj {
                if unjudged.is_empty() || std::env::var("C12_SHOW_UNJUDGED").is_ok() {
                    println!("unjudged example: {} :: {}", case_json(&cases[i]), r);
                }
                *unjudged.entry(r.split(':').next().unwrap_or("").to_string()).or_default() += 1;
                continue;
            }
            evaluated += 1;
            if *nt {
                nontrivial += 1;
                distinct_src.insert(key.clone());
            }
            if sigs.is_empty() {
                clean += 1;
            }
            for sg in sigs {
                // the witness registration above already counted one case of this signature
                if first_counted.insert(sg.clone()) {
                    continue;
                }
                ctx.violation(sg, "", json!(null));
            }
        }
        let total_cases: u64 = card.values().sum();
        let skipped: u64 = not_case.values().sum::<u64>() + unjudged.values().sum::<u64>();
        ctx.cov("generator_cardinality", json!({"total": total_cases, "by_family": card, "not_expressible_by_builder": not_case, "evaluated": evaluated}));
        ctx.cov("evaluations", evaluated);
        ctx.cov("distinct_nontrivial", distinct_src.len() as u64);
        ctx.cov("nontrivial_evaluations", nontrivial);
        ctx.cov("rule", "a case is non-trivial if the source store has >= 1 live node and the imported store has >= 1 node; distinct = distinct (source graph up to ids, hierarchy declarations, stored-version count) among them");
        ctx.cov("exhaustive", evaluated + skipped == total_cases);
        ctx.cov("round_trips_identical", clean);
        ctx.cov("unjudged", json!(unjudged));
        ctx.cov("value_alphabet", json!(vals.iter().map(|v| json!([v.0, canon(&v.1)])).collect::<Vec<_>>()));
        ctx.cov("shapes", shapes.len() as u64);
        for i in [0usize, cases.len() / 2, cases.len() - 1] {
            ctx.sample(case_json(&cases[i]));
        }
        ctx.assume("the format (ADR-022) documents one lossy mapping, 'JSON typing flattens Cypher types (Int 32 vs 64; Date vs DateTime)': PropertyValue has only Integer(i64) and DateTime, so nothing of the alphabet is affected and nothing was left out for it");
        ctx.assume("edge created_at/updated_at timestamps (documented as dropped in v2) and node created_at/updated_at are not part of the compared graph");
        ctx.assume("a property whose value is null is an absent property; floats are compared by bits, maps and label sets as unordered, lists and vectors as ordered");
        ctx.assume("builder x value combinations a builder cannot express (no Cypher literal for the value, create_node_stub without a label, create_edge_stub with properties) are not cases; they are counted under generator_cardinality.not_expressible_by_builder");
        ctx.assume("node_count() / MATCH (n) RETURN count(n) are demanded of the imported store only (the source's version-counting is C07's subject)");
    });
}

fn replay(ctx: &Ctx, p: &std::path::Path, shapes: &[(usize, Vec<(usize, usize, usize)>)], vals: &[(&'static str, PropertyValue)]) {
    let doc: J = serde_json::from_str(&std::fs::read_to_string(p).expect("read replay")).expect("json");
    let cj = if doc["witness"]["case"].is_object() { &doc["witness"]["case"] } else { &doc["case"] };
    let case = case_from_json(cj).unwrap_or_else(|| ctx.machinery("replay: cannot parse case"));
    println!("case: {}", cj);
    let e = evaluate(&case, shapes, vals);
    if let Some(r) = &e.not_a_case {
        println!("not a case: {r}");
    }
    if let Some(r) = &e.unjudged {
        println!("unjudged: {r}");
    }
    println!("expected: imported dump isomorphic to source dump, imported views consistent");
    println!("observed: {}", serde_json::to_string_pretty(&e.detail).unwrap());
    for (sig, msg) in e.sigs {
        println!("  MISMATCH [{sig}] {msg}");
        ctx.violation(&sig, msg, json!({"case": cj}));
    }
}
