//! Shared by the snapshot checks c12 / c13 / c14 (`#[path = "../c12/shared.rs"] mod shared;`).
//!
//! * `Dump`: full-graph dump of a `GraphStore` through its public read API *and* through
//!   Cypher: nodes (label set, typed properties = row map merged with the column store as in
//!   `node_properties_full`), relationships (endpoints, type, typed properties), label-index
//!   answers (`get_nodes_by_label`, `MATCH (n:L) RETURN count(n)`), adjacency and Cypher
//!   relationship views, hierarchy index declarations.
//! * `iso`: brute-force isomorphism of two dumps (<= 6 nodes), ids renamed.
//! * `GraphSpec` + builders: the small graphs the three checks export.
#![allow(dead_code)]
use samyama::graph::{EdgeType, GraphStore, IsolationLevel, Label, NodeId, PropertyMap, PropertyValue};
use samyama::query::executor::{MutQueryExecutor, QueryExecutor, Value};
use serde_json::json;
use std::collections::{BTreeMap, BTreeSet, HashMap};
use svmc::engine::ctx::guarded;

// ---------------------------------------------------------------------------------------------
// canonical, type-tagged rendering of a property value (floats by bits, maps sorted)
// ---------------------------------------------------------------------------------------------
pub fn canon(v: &PropertyValue) -> String {
    match v {
        PropertyValue::String(s) => format!("S{:?}", s),
        PropertyValue::Integer(i) => format!("I{}", i),
        PropertyValue::Float(f) => format!("F{:?}#{:016x}", f, f.to_bits()),
        PropertyValue::Boolean(b) => format!("B{}", b),
        PropertyValue::DateTime(d) => format!("T{}", d),
        PropertyValue::Array(a) => format!("A[{}]", a.iter().map(canon).collect::<Vec<_>>().join(",")),
        PropertyValue::Map(m) => {
            let mut kv: Vec<(&String, &PropertyValue)> = m.iter().collect();
            kv.sort_by(|a, b| a.0.cmp(b.0));
            format!("M{{{}}}", kv.iter().map(|(k, v)| format!("{:?}:{}", k, canon(v))).collect::<Vec<_>>().join(","))
        }
        PropertyValue::Vector(v) => format!("V[{}]", v.iter().map(|f| format!("{:?}#{:08x}", f, f.to_bits())).collect::<Vec<_>>().join(",")),
        PropertyValue::Duration { months, days, seconds, nanos } => format!("D{}/{}/{}/{}", months, days, seconds, nanos),
        PropertyValue::Null => "N".to_string(),
    }
}

/// A property value compared / ordered by its canonical rendering (type tag + bits).
#[derive(Clone)]
pub struct PV(pub PropertyValue, pub String);
impl std::fmt::Debug for PV {
    fn fmt(&self, f: &mut std::fmt::Formatter<'_>) -> std::fmt::Result {
        // canonical text only (the Debug text of a Map value depends on hash order)
        f.write_str(&self.1)
    }
}
impl PV {
    pub fn new(v: PropertyValue) -> PV {
        let c = canon(&v);
        PV(v, c)
    }
}
impl PartialEq for PV {
    fn eq(&self, o: &PV) -> bool {
        self.1 == o.1
    }
}
impl Eq for PV {}
impl PartialOrd for PV {
    fn partial_cmp(&self, o: &PV) -> Option<std::cmp::Ordering> {
        Some(self.cmp(o))
    }
}
impl Ord for PV {
    fn cmp(&self, o: &PV) -> std::cmp::Ordering {
        self.1.cmp(&o.1)
    }
}
impl serde::Serialize for PV {
    fn serialize<S: serde::Serializer>(&self, s: S) -> Result<S::Ok, S::Error> {
        s.serialize_str(&self.1)
    }
}
pub type Props = BTreeMap<String, PV>;

fn canon_props<'a>(it: impl Iterator<Item = (&'a String, &'a PropertyValue)>) -> Props {
    // a property whose value is null is an absent property
    it.filter(|(_, v)| !v.is_null()).map(|(k, v)| (k.clone(), PV::new(v.clone()))).collect()
}

#[derive(Clone, Debug, PartialEq, Eq, PartialOrd, Ord)]
pub struct DNode {
    pub id: u64,
    pub labels: BTreeSet<String>,
    pub props: Props,
    /// labels L for which `get_nodes_by_label(L)` returns this node
    pub found_by: BTreeSet<String>,
    /// `MATCH (n) RETURN id(n), n.<key>` for the probed keys (non-null answers)
    pub cy_props: Props,
}
#[derive(Clone, Debug, PartialEq, Eq, PartialOrd, Ord)]
pub struct DEdge {
    pub id: u64,
    pub src: u64,
    pub dst: u64,
    pub ty: String,
    pub props: Props,
}
#[derive(Clone, Debug, PartialEq, Eq, PartialOrd, Ord)]
pub struct HDecl {
    pub name: String,
    pub edge_types: BTreeSet<String>,
    pub reverse: bool,
    pub measure_label: Option<String>,
    pub measure_prop: Option<String>,
    pub ops: BTreeSet<String>,
}
#[derive(Clone, Debug, PartialEq, Eq, Default)]
pub struct Dump {
    pub nodes: Vec<DNode>,
    pub edges: Vec<DEdge>,
    /// every stored version of every node (`all_nodes()`), as (id, labels, row properties)
    pub versions: Vec<(u64, BTreeSet<String>, Props)>,
    pub cy_label_count: BTreeMap<String, i64>,
    pub cy_node_count: i64,
    pub cy_edges: Vec<(u64, String, u64)>,
    pub adj_out: Vec<(u64, String, u64)>,
    pub adj_in: Vec<(u64, String, u64)>,
    pub by_type: BTreeMap<String, Vec<u64>>,
    pub api_node_count: usize,
    pub api_edge_count: usize,
    pub hier: Vec<HDecl>,
    /// views that could not be taken (query error / panic): name -> message
    pub errors: BTreeMap<String, String>,
    /// property keys that were also read through Cypher
    pub probed: BTreeSet<String>,
}

fn cy(store: &GraphStore, q: &str) -> Result<Vec<Vec<(String, Value)>>, String> {
    let r = guarded(|| -> Result<_, String> {
        let query = samyama::parse_query(q).map_err(|e| format!("parse: {e}"))?;
        let ex = QueryExecutor::new(store);
        let batch = ex.execute(&query).map_err(|e| format!("exec: {e}"))?;
        Ok(batch.records.iter().map(|r| r.bindings().iter().map(|(k, v)| (k.to_string(), v.clone())).collect::<Vec<_>>()).collect::<Vec<_>>())
    });
    match r {
        Ok(x) => x,
        Err(p) => Err(format!("panic: {p}")),
    }
}
fn val_int(v: &Value) -> Option<i64> {
    match v {
        Value::Property(PropertyValue::Integer(i)) => Some(*i),
        _ => None,
    }
}
fn col<'a>(row: &'a [(String, Value)], name: &str) -> Option<&'a Value> {
    row.iter().find(|(k, _)| k == name).map(|(_, v)| v)
}

/// `labels`: label universe to probe (besides every label seen on a node and ""),
/// `keys`: property keys to read through Cypher as well.
pub fn dump(store: &GraphStore, labels: &[&str], keys: &[&str]) -> Dump {
    let mut d = Dump::default();
    d.probed = keys.iter().map(|s| s.to_string()).collect();
    // live node ids: distinct ids of all_nodes() that get_node() resolves
    let mut ids: BTreeSet<u64> = BTreeSet::new();
    for n in store.all_nodes() {
        ids.insert(n.id.as_u64());
        d.versions.push((n.id.as_u64(), n.labels.iter().map(|l| l.as_str().to_string()).collect(), canon_props(n.properties.iter())));
    }
    d.versions.sort();
    let mut universe: BTreeSet<String> = labels.iter().map(|s| s.to_string()).collect();
    universe.insert(String::new());
    for l in store.all_labels() {
        universe.insert(l.as_str().to_string());
    }
    for &id in &ids {
        if let Some(n) = store.get_node(NodeId::new(id)) {
            for l in &n.labels {
                universe.insert(l.as_str().to_string());
            }
        }
    }
    let mut found: BTreeMap<u64, BTreeSet<String>> = BTreeMap::new();
    for l in &universe {
        for n in store.get_nodes_by_label(&Label::new(l.as_str())) {
            found.entry(n.id.as_u64()).or_default().insert(l.clone());
        }
    }
    // Cypher property reads
    let mut cyp: BTreeMap<u64, Props> = BTreeMap::new();
    for k in keys {
        match cy(store, &format!("MATCH (n) RETURN id(n) AS i, n.{k} AS v")) {
            Ok(rows) => {
                for r in rows {
                    let (Some(i), Some(v)) = (col(&r, "i").and_then(val_int), col(&r, "v")) else { continue };
                    if let Value::Property(pv) = v {
                        if !pv.is_null() {
                            cyp.entry(i as u64).or_default().insert(k.to_string(), PV::new(pv.clone()));
                        }
                    } else if !matches!(v, Value::Null) {
                        cyp.entry(i as u64).or_default().insert(k.to_string(), PV(PropertyValue::Null, format!("?{:?}", v)));
                    }
                }
            }
            Err(e) => {
                d.errors.insert(format!("cy_props.{k}"), e);
            }
        }
    }
    for &id in &ids {
        let nid = NodeId::new(id);
        let Some(n) = store.get_node(nid) else { continue };
        let full = store.node_properties_full(nid);
        d.nodes.push(DNode {
            id,
            labels: n.labels.iter().map(|l| l.as_str().to_string()).collect(),
            props: canon_props(full.iter()),
            found_by: found.remove(&id).unwrap_or_default(),
            cy_props: cyp.remove(&id).unwrap_or_default(),
        });
    }
    // index answers for ids that are not live nodes are kept visible as pseudo entries
    for (id, ls) in found {
        d.errors.insert(format!("label_index.dead_id.{id}"), format!("{ls:?}"));
    }
    for e in store.all_edges() {
        d.edges.push(DEdge { id: e.id.as_u64(), src: e.source.as_u64(), dst: e.target.as_u64(), ty: e.edge_type.as_str().to_string(), props: canon_props(e.properties.iter()) });
    }
    d.edges.sort();
    for n in &d.nodes {
        let nid = NodeId::new(n.id);
        for (_e, s, t, ty) in store.get_outgoing_edge_targets(nid) {
            d.adj_out.push((s.as_u64(), ty.as_str().to_string(), t.as_u64()));
        }
        for (_e, s, t, ty) in store.get_incoming_edge_sources(nid) {
            d.adj_in.push((s.as_u64(), ty.as_str().to_string(), t.as_u64()));
        }
    }
    d.adj_out.sort();
    d.adj_in.sort();
    let types: BTreeSet<String> = d.edges.iter().map(|e| e.ty.clone()).collect();
    for t in &types {
        let mut v: Vec<u64> = store.get_edges_by_type(&EdgeType::new(t.as_str())).iter().map(|e| e.id.as_u64()).collect();
        v.sort();
        d.by_type.insert(t.clone(), v);
    }
    d.api_node_count = store.node_count();
    d.api_edge_count = store.edge_count();
    // Cypher counts
    match cy(store, "MATCH (n) RETURN count(n) AS c") {
        Ok(rows) => d.cy_node_count = rows.first().and_then(|r| col(r, "c")).and_then(val_int).unwrap_or(-1),
        Err(e) => {
            d.errors.insert("cy_node_count".into(), e);
        }
    }
    for l in &universe {
        if !ident_ok(l) {
            continue;
        }
        match cy(store, &format!("MATCH (n:{l}) RETURN count(n) AS c")) {
            Ok(rows) => {
                let c = rows.first().and_then(|r| col(r, "c")).and_then(val_int).unwrap_or(-1);
                // labels that are only known because the label index still has an (empty) entry
                // for them are reported only when the count is not 0
                if c != 0 || labels.contains(&l.as_str()) {
                    d.cy_label_count.insert(l.clone(), c);
                }
            }
            Err(e) => {
                d.errors.insert(format!("cy_label_count.{l}"), e);
            }
        }
    }
    match cy(store, "MATCH (a)-[r]->(b) RETURN id(a) AS s, type(r) AS t, id(b) AS d") {
        Ok(rows) => {
            for r in rows {
                let s = col(&r, "s").and_then(val_int).unwrap_or(-1);
                let t = match col(&r, "t") {
                    Some(Value::Property(PropertyValue::String(s))) => s.clone(),
                    o => format!("?{:?}", o),
                };
                let dd = col(&r, "d").and_then(val_int).unwrap_or(-1);
                d.cy_edges.push((s as u64, t, dd as u64));
            }
            d.cy_edges.sort();
        }
        Err(e) => {
            d.errors.insert("cy_edges".into(), e);
        }
    }
    // hierarchy declarations (the spec, not the SHOW row)
    for info in store.hierarchy_index.list() {
        if let Some(entry) = store.hierarchy_index.get(&info.name) {
            let e = entry.read().unwrap();
            d.hier.push(HDecl {
                name: e.spec.name.clone(),
                edge_types: e.spec.edge_types.iter().map(|t| t.as_str().to_string()).collect(),
                reverse: e.spec.reverse,
                measure_label: e.spec.measure.as_ref().and_then(|m| m.label.as_ref().map(|l| l.as_str().to_string())),
                measure_prop: e.spec.measure.as_ref().map(|m| m.property.clone()),
                ops: e.spec.ops.iter().map(|o| o.name().to_string()).collect(),
            });
        }
    }
    d.hier.sort();
    d
}

impl Dump {
    pub fn triples(&self) -> Vec<(u64, String, u64)> {
        let mut v: Vec<_> = self.edges.iter().map(|e| (e.src, e.ty.clone(), e.dst)).collect();
        v.sort();
        v
    }
    /// Do the secondary views of this store agree with its primary view (node label sets,
    /// `all_edges`)? Returns (view, message) per disagreement. `version_counting_views` = also
    /// require `node_count()` / `MATCH (n) RETURN count(n)` to equal the number of live nodes
    /// (they count stored versions — C07's business on a store with history, so only demanded
    /// where every node has one version).
    pub fn inconsistencies(&self, version_counting_views: bool) -> Vec<(String, String)> {
        let mut out = vec![];
        for (k, v) in &self.errors {
            out.push((format!("view_error:{}", k.split('.').next().unwrap_or(k)), format!("{k}: {v}")));
        }
        for n in &self.nodes {
            if n.found_by != n.labels {
                out.push(("label_index".into(), format!("node {} has labels {:?} but get_nodes_by_label finds it under {:?}", n.id, n.labels, n.found_by)));
            }
            let want: Props = n.props.iter().filter(|(k, _)| self.probed.contains(*k)).map(|(k, v)| (k.clone(), v.clone())).collect();
            if n.cy_props != want {
                out.push(("cy_props".into(), format!("node {}: Cypher reads {:?}, store API {:?}", n.id, n.cy_props, want)));
            }
        }
        for (l, c) in &self.cy_label_count {
            let want = self.nodes.iter().filter(|n| n.found_by.contains(l)).count() as i64;
            if *c != want {
                out.push(("cy_label_count".into(), format!("MATCH (n:{l}) RETURN count(n) = {c}, get_nodes_by_label finds {want}")));
            }
        }
        let tr = self.triples();
        // (on a store with history the all-node scan behind this pattern visits every stored version)
        if version_counting_views && self.cy_edges != tr && !self.errors.contains_key("cy_edges") {
            out.push(("cy_edges".into(), format!("MATCH (a)-[r]->(b): {:?}, all_edges: {:?}", self.cy_edges, tr)));
        }
        if self.adj_out != tr {
            out.push(("adj_out".into(), format!("get_outgoing_edge_targets: {:?}, all_edges: {:?}", self.adj_out, tr)));
        }
        if self.adj_in != tr {
            out.push(("adj_in".into(), format!("get_incoming_edge_sources: {:?}, all_edges: {:?}", self.adj_in, tr)));
        }
        for (t, ids) in &self.by_type {
            let mut want: Vec<u64> = self.edges.iter().filter(|e| &e.ty == t).map(|e| e.id).collect();
            want.sort();
            if ids != &want {
                out.push(("by_type".into(), format!("get_edges_by_type({t}) = {ids:?}, all_edges has {want:?}")));
            }
        }
        if self.api_edge_count != self.edges.len() {
            out.push(("edge_count".into(), format!("edge_count() = {}, all_edges has {}", self.api_edge_count, self.edges.len())));
        }
        if version_counting_views {
            if self.api_node_count != self.nodes.len() {
                out.push(("node_count".into(), format!("node_count() = {}, live nodes {}", self.api_node_count, self.nodes.len())));
            }
            if self.cy_node_count != self.nodes.len() as i64 && !self.errors.contains_key("cy_node_count") {
                out.push(("cy_node_count".into(), format!("MATCH (n) RETURN count(n) = {}, live nodes {}", self.cy_node_count, self.nodes.len())));
            }
        }
        out
    }
    /// node-level disagreements (label index, Cypher property reads) as (node id, view, message)
    pub fn node_inconsistencies(&self) -> Vec<(u64, String, String)> {
        let mut out = vec![];
        for n in &self.nodes {
            if n.found_by != n.labels {
                out.push((n.id, "label_index".to_string(), format!("node {} has labels {:?} but get_nodes_by_label finds it under {:?}", n.id, n.labels, n.found_by)));
            }
            let want: Props = n.props.iter().filter(|(k, _)| self.probed.contains(*k)).map(|(k, v)| (k.clone(), v.clone())).collect();
            if n.cy_props != want {
                out.push((n.id, "cy_props".to_string(), format!("node {}: Cypher reads {:?}, store API {:?}", n.id, n.cy_props, want)));
            }
        }
        out
    }
    pub fn multi_version(&self) -> bool {
        self.versions.len() != self.nodes.len()
    }
    pub fn to_json(&self) -> serde_json::Value {
        json!({
            "nodes": self.nodes.iter().map(|n| json!({"id": n.id, "labels": n.labels, "props": n.props, "found_by_label": n.found_by})).collect::<Vec<_>>(),
            "edges": self.edges.iter().map(|e| json!({"id": e.id, "src": e.src, "dst": e.dst, "type": e.ty, "props": e.props})).collect::<Vec<_>>(),
            "stored_versions": self.versions.len(),
            "cypher_label_count": self.cy_label_count,
            "hierarchies": self.hier.iter().map(|h| json!({"name": h.name, "edge_types": h.edge_types, "reverse": h.reverse, "measure_label": h.measure_label, "measure": h.measure_prop, "ops": h.ops})).collect::<Vec<_>>(),
        })
    }
}

// ---------------------------------------------------------------------------------------------
// isomorphism on the primary view (label sets, typed properties, relationship multiset)
// ---------------------------------------------------------------------------------------------
pub type NodeSig = (BTreeSet<String>, Props);

#[derive(Clone, Debug, PartialEq, Eq)]
pub struct Plain {
    pub nodes: Vec<(u64, NodeSig)>,
    pub edges: Vec<(u64, u64, String, Props)>,
}
impl Plain {
    pub fn of(d: &Dump) -> Plain {
        Plain {
            nodes: d.nodes.iter().map(|n| (n.id, (n.labels.clone(), n.props.clone()))).collect(),
            edges: d.edges.iter().map(|e| (e.src, e.dst, e.ty.clone(), e.props.clone())).collect(),
        }
    }
    pub fn to_json(&self) -> serde_json::Value {
        json!({"nodes": self.nodes.iter().map(|(i, (l, p))| json!({"id": i, "labels": l, "props": p})).collect::<Vec<_>>(),
               "edges": self.edges.iter().map(|(s, d, t, p)| json!({"src": s, "dst": d, "type": t, "props": p})).collect::<Vec<_>>()})
    }
    /// disjoint union, ids of `other` shifted out of the way
    pub fn union(&self, other: &Plain) -> Plain {
        let shift = self.nodes.iter().map(|n| n.0).max().unwrap_or(0) + 1000;
        let mut p = self.clone();
        for (i, s) in &other.nodes {
            p.nodes.push((i + shift, s.clone()));
        }
        for (s, d, t, pr) in &other.edges {
            p.edges.push((s + shift, d + shift, t.clone(), pr.clone()));
        }
        p
    }
}

/// Some(mapping a-id -> b-id) if isomorphic.
pub fn iso(a: &Plain, b: &Plain) -> Option<BTreeMap<u64, u64>> {
    if a.nodes.len() != b.nodes.len() || a.edges.len() != b.edges.len() {
        return None;
    }
    let n = a.nodes.len();
    assert!(n <= 8, "iso: brute force is meant for tiny graphs");
    let mut sa: Vec<&NodeSig> = a.nodes.iter().map(|x| &x.1).collect();
    let mut sb: Vec<&NodeSig> = b.nodes.iter().map(|x| &x.1).collect();
    sa.sort();
    sb.sort();
    if sa != sb {
        return None;
    }
    let mut eb: Vec<(u64, u64, &String, &Props)> = b.edges.iter().map(|e| (e.0, e.1, &e.2, &e.3)).collect();
    eb.sort();
    fn rec(i: usize, a: &Plain, b: &Plain, used: &mut Vec<bool>, map: &mut Vec<u64>, eb: &Vec<(u64, u64, &String, &Props)>) -> bool {
        if i == a.nodes.len() {
            let m: HashMap<u64, u64> = a.nodes.iter().map(|x| x.0).zip(map.iter().copied()).collect();
            let mut ea: Vec<(u64, u64, &String, &Props)> = vec![];
            for e in &a.edges {
                let (Some(s), Some(d)) = (m.get(&e.0), m.get(&e.1)) else { return false };
                ea.push((*s, *d, &e.2, &e.3));
            }
            ea.sort();
            return &ea == eb;
        }
        for j in 0..b.nodes.len() {
            if !used[j] && a.nodes[i].1 == b.nodes[j].1 {
                used[j] = true;
                map.push(b.nodes[j].0);
                if rec(i + 1, a, b, used, map, eb) {
                    return true;
                }
                map.pop();
                used[j] = false;
            }
        }
        false
    }
    let mut used = vec![false; n];
    let mut map = vec![];
    // dangling endpoints in b can never be matched by the edge comparison above unless a has them too
    if rec(0, a, b, &mut used, &mut map, &eb) {
        Some(a.nodes.iter().map(|x| x.0).zip(map).collect())
    } else {
        None
    }
}

// ---------------------------------------------------------------------------------------------
// small graphs and the ways to build them
// ---------------------------------------------------------------------------------------------
#[derive(Clone, Debug, PartialEq)]
pub struct NodeSpec {
    pub labels: Vec<String>,
    pub props: Vec<(String, PropertyValue)>,
}
#[derive(Clone, Debug, PartialEq)]
pub struct EdgeSpec {
    pub src: usize,
    pub dst: usize,
    pub ty: String,
    pub props: Vec<(String, PropertyValue)>,
}
#[derive(Clone, Debug, PartialEq, Default)]
pub struct GraphSpec {
    pub nodes: Vec<NodeSpec>,
    pub edges: Vec<EdgeSpec>,
}

#[derive(Clone, Copy, Debug, PartialEq, Eq, PartialOrd, Ord)]
pub enum Builder {
    /// `CREATE (...)` statements through the Cypher engine (values as literals)
    Cypher,
    /// `create_node_with_labels` / `set_node_property` / `create_edge[_with_properties]`
    Api,
    /// `create_node_stub` / `add_label_to_node` / `set_column_property` / `create_edge_stub` + `finish_bulk_load`
    Stub,
    /// Api, then `compact_adjacency()` after the first relationship (later ones stay in the write buffer)
    MixedTiers,
}
pub const BUILDERS: [Builder; 4] = [Builder::Cypher, Builder::Api, Builder::Stub, Builder::MixedTiers];

/// Cypher literal for a value, if the language has one that denotes exactly this value.
pub fn cypher_literal(v: &PropertyValue) -> Option<String> {
    match v {
        PropertyValue::String(s) => {
            // single-quoted with backslash escapes; keep to characters whose escaping is unambiguous
            let mut out = String::from("'");
            for c in s.chars() {
                match c {
                    '\'' => out.push_str("\\'"),
                    '\\' => out.push_str("\\\\"),
                    '\n' => out.push_str("\\n"),
                    '\t' => out.push_str("\\t"),
                    c if (c as u32) < 0x20 => return None,
                    c => out.push(c),
                }
            }
            out.push('\'');
            Some(out)
        }
        PropertyValue::Integer(i) if *i > i64::MIN => Some(format!("{}", i)),
        PropertyValue::Float(f) if f.is_finite() && !(*f == 0.0 && f.is_sign_negative()) => {
            let s = format!("{:?}", f);
            if s.contains('e') || s.contains("E") {
                None
            } else {
                Some(s)
            }
        }
        PropertyValue::Boolean(b) => Some(format!("{}", b)),
        PropertyValue::Array(a) => {
            let parts: Option<Vec<String>> = a.iter().map(cypher_literal).collect();
            parts.map(|p| format!("[{}]", p.join(", ")))
        }
        PropertyValue::Map(m) => {
            let mut kv: Vec<(&String, &PropertyValue)> = m.iter().collect();
            kv.sort_by(|a, b| a.0.cmp(b.0));
            let mut parts = vec![];
            for (k, v) in kv {
                if !k.chars().all(|c| c.is_ascii_alphanumeric()) || k.is_empty() {
                    return None;
                }
                parts.push(format!("{}: {}", k, cypher_literal(v)?));
            }
            Some(format!("{{{}}}", parts.join(", ")))
        }
        _ => None,
    }
}

fn ident_ok(s: &str) -> bool {
    !s.is_empty() && s.chars().all(|c| c.is_ascii_alphanumeric() || c == '_') && !s.chars().next().unwrap().is_ascii_digit()
}

fn run_mut(store: &mut GraphStore, q: &str) -> Result<(), String> {
    let query = samyama::parse_query(q).map_err(|e| format!("parse `{q}`: {e}"))?;
    let mut ex = MutQueryExecutor::new(store, "default".to_string());
    ex.execute(&query).map_err(|e| format!("exec `{q}`: {e}"))?;
    Ok(())
}

/// Build `spec` into `store` (which may already hold content). Returns the node ids, or
/// Err(reason) when this builder cannot express the spec (then the combination is not a case).
pub fn build(store: &mut GraphStore, spec: &GraphSpec, b: Builder) -> Result<Vec<NodeId>, String> {
    let mut ids = vec![];
    match b {
        Builder::Cypher => {
            // nodes first (one statement each, tagged with a scratch property to find them again is
            // not needed: ids are read back from the statement's RETURN)
            for n in &spec.nodes {
                for l in &n.labels {
                    if !ident_ok(l) {
                        return Err("label not a Cypher identifier".into());
                    }
                }
                let mut props = vec![];
                for (k, v) in &n.props {
                    if !ident_ok(k) {
                        return Err("key not a Cypher identifier".into());
                    }
                    props.push(format!("{}: {}", k, cypher_literal(v).ok_or("value has no Cypher literal")?));
                }
                let labels: String = n.labels.iter().map(|l| format!(":{l}")).collect();
                let q = format!("CREATE (n{}{}) RETURN id(n) AS i", labels, if props.is_empty() { String::new() } else { format!(" {{{}}}", props.join(", ")) });
                let query = samyama::parse_query(&q).map_err(|e| format!("parse `{q}`: {e}"))?;
                let mut ex = MutQueryExecutor::new(store, "default".to_string());
                let batch = ex.execute(&query).map_err(|e| format!("exec `{q}`: {e}"))?;
                let id = batch.records.first().and_then(|r| r.get("i")).and_then(val_int).ok_or_else(|| format!("`{q}` returned no id"))?;
                ids.push(NodeId::new(id as u64));
            }
            for e in &spec.edges {
                if !ident_ok(&e.ty) {
                    return Err("type not a Cypher identifier".into());
                }
                let mut props = vec![];
                for (k, v) in &e.props {
                    if !ident_ok(k) {
                        return Err("key not a Cypher identifier".into());
                    }
                    props.push(format!("{}: {}", k, cypher_literal(v).ok_or("value has no Cypher literal")?));
                }
                let p = if props.is_empty() { String::new() } else { format!(" {{{}}}", props.join(", ")) };
                let q = if e.src == e.dst {
                    format!("MATCH (a) WHERE id(a) = {} CREATE (a)-[:{}{}]->(a)", ids[e.src].as_u64(), e.ty, p)
                } else {
                    format!("MATCH (a), (b) WHERE id(a) = {} AND id(b) = {} CREATE (a)-[:{}{}]->(b)", ids[e.src].as_u64(), ids[e.dst].as_u64(), e.ty, p)
                };
                run_mut(store, &q)?;
            }
        }
        Builder::Api | Builder::MixedTiers => {
            for n in &spec.nodes {
                let id = store.create_node_with_labels(n.labels.iter().map(|l| Label::new(l.as_str())));
                for (k, v) in &n.props {
                    store.set_node_property("default", id, k.clone(), v.clone()).map_err(|e| format!("set_node_property: {e}"))?;
                }
                ids.push(id);
            }
            for (i, e) in spec.edges.iter().enumerate() {
                if e.props.is_empty() {
                    store.create_edge(ids[e.src], ids[e.dst], e.ty.as_str()).map_err(|x| format!("create_edge: {x}"))?;
                } else {
                    let pm: PropertyMap = e.props.iter().cloned().collect();
                    store.create_edge_with_properties(ids[e.src], ids[e.dst], e.ty.as_str(), pm).map_err(|x| format!("create_edge_with_properties: {x}"))?;
                }
                if b == Builder::MixedTiers && i == 0 {
                    store.compact_adjacency();
                }
            }
            if b == Builder::MixedTiers && spec.edges.is_empty() {
                store.compact_adjacency();
            }
        }
        Builder::Stub => {
            for n in &spec.nodes {
                let Some(first) = n.labels.first() else { return Err("create_node_stub needs a label".into()) };
                let id = store.create_node_stub(first.as_str());
                for l in n.labels.iter().skip(1) {
                    store.add_label_to_node("default", id, l.as_str()).map_err(|e| format!("add_label_to_node: {e}"))?;
                }
                for (k, v) in &n.props {
                    store.set_column_property(id, k, v.clone());
                }
                ids.push(id);
            }
            for e in &spec.edges {
                if !e.props.is_empty() {
                    return Err("create_edge_stub carries no properties".into());
                }
                store.create_edge_stub(ids[e.src], ids[e.dst], e.ty.as_str()).map_err(|x| format!("create_edge_stub: {x}"))?;
            }
            store.finish_bulk_load();
        }
    }
    Ok(ids)
}

/// Advance `current_version` the only way the store offers: begin + commit a transaction.
pub fn bump_version(store: &mut GraphStore) {
    let t = store.begin_transaction(IsolationLevel::ReadCommitted);
    let _ = store.commit_transaction(t);
}

pub fn spec_json(s: &GraphSpec) -> serde_json::Value {
    json!({
        "nodes": s.nodes.iter().map(|n| json!({"labels": n.labels, "props": n.props.iter().map(|(k, v)| json!([k, canon(v)])).collect::<Vec<_>>()})).collect::<Vec<_>>(),
        "edges": s.edges.iter().map(|e| json!({"src": e.src, "dst": e.dst, "type": e.ty, "props": e.props.iter().map(|(k, v)| json!([k, canon(v)])).collect::<Vec<_>>()})).collect::<Vec<_>>(),
    })
}

pub fn export_bytes(store: &GraphStore, level: Option<u32>) -> Result<Vec<u8>, String> {
    let r = guarded(|| {
        let mut buf = Vec::new();
        let r = match level {
            Some(l) => samyama::snapshot::export_tenant_with_compression(store, &mut buf, l),
            None => samyama::snapshot::export_tenant(store, &mut buf),
        };
        r.map(|_| buf).map_err(|e| e.to_string())
    });
    match r {
        Ok(x) => x,
        Err(p) => Err(format!("panic: {p}")),
    }
}

pub fn silence_stderr() {
    unsafe {
        let fd = libc::open(b"/dev/null\0".as_ptr() as *const libc::c_char, libc::O_WRONLY);
        if fd >= 0 {
            libc::dup2(fd, 2);
        }
    }
}

/// glibc's default trim / mmap thresholds make every gzip encoder state (a few hundred kB,
/// allocated and freed once per export / import) grow and shrink the heap with brk/madvise:
/// measured 9 ms per export of an empty store instead of 16 us. Keep freed memory in the arenas.
pub fn tune_malloc() {
    unsafe {
        libc::mallopt(libc::M_MMAP_THRESHOLD, 32 << 20);
        libc::mallopt(libc::M_TRIM_THRESHOLD, 1 << 30);
        libc::mallopt(libc::M_TOP_PAD, 64 << 20);
    }
}
