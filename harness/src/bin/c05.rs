//! C05 — a write statement that fails changes nothing.
//! Fault enumeration: multi-row write statements with a failure planted at every row position
//! (zero divisor, duplicate value under a unique constraint), on start graphs with and without
//! index / constraint; if the engine returns Err the full state must equal the state before.
#[path = "../cy/ast.rs"]
mod ast;
#[path = "../cy/classify.rs"]
mod classify;
#[path = "../cy/eval.rs"]
mod eval;
#[path = "../cy/judge.rs"]
mod judge;

use ast::*;
use judge::EngineOut;
use samyama::graph::GraphStore;
use serde_json::json;
use std::collections::BTreeMap;
use svmc::model::graph::{build, dump, isomorphic, RefGraph};
use svmc::model::values::LV;
use svmc::{run_check, Level, Tier};

fn n(v: &str) -> NodePat {
    NodePat::v(v)
}
fn pp(s: NodePat) -> PathPat {
    PathPat::node(s)
}
fn div(a: Expr, b: Expr) -> Expr {
    Expr::Arith(ArOp::Div, Box::new(a), Box::new(b))
}
fn unwind(vals: &[i64], v: &str) -> Clause {
    Clause::Unwind { list: Expr::List(vals.iter().map(|i| lit_i(*i)).collect()), var: v.to_string() }
}

#[derive(Clone)]
struct Case {
    template: &'static str,
    /// rows (values of x); the failing value sits at `fail_at`
    vals: Vec<i64>,
    fail_at: usize,
    setup: Vec<&'static str>,
    start: &'static str,
    stmt: Query,
    /// the same statement restricted to the rows before the failing one (None: rows come from a
    /// MATCH whose order is the engine's)
    prefix_stmt: Option<Query>,
    /// raw statement text (overrides `stmt`) for shapes outside the little AST
    text: Option<String>,
    /// the statement has one row only: whatever it leaves is a half-built row, not earlier rows
    single_row: bool,
}
impl Case {
    fn text(&self) -> String {
        self.text.clone().unwrap_or_else(|| self.stmt.print())
    }
}
const MU_KEYS: usize = 6;

fn start_graph(name: &str) -> RefGraph {
    let mut g = RefGraph::new();
    match name {
        "empty" => {}
        "U7" => {
            g.add_node(&["U"], &[("k", LV::Int(7))]);
        }
        "A1_A0_A2" => {
            g.add_node(&["A"], &[("p", LV::Int(1))]);
            g.add_node(&["A"], &[("p", LV::Int(0))]);
            g.add_node(&["A"], &[("p", LV::Int(2))]);
        }
        "A0_A1" => {
            g.add_node(&["A"], &[("p", LV::Int(0))]);
            g.add_node(&["A"], &[("p", LV::Int(1))]);
        }
        "U1_U2_U3" => {
            g.add_node(&["U"], &[("k", LV::Int(1))]);
            g.add_node(&["U"], &[("k", LV::Int(2))]);
            g.add_node(&["U"], &[("k", LV::Int(3))]);
        }
        "DEL_OBSTRUCTED_1" | "DEL_OBSTRUCTED_2" | "DEL_OBSTRUCTED_3" => {
            // three (:A)-[:R]->(:B) pairs; the k-th :A node also has an incoming :S relationship
            // that the DELETE statements do not name, so a plain DELETE of it must be refused
            let k: usize = name[name.len() - 1..].parse().unwrap();
            let mut a_ids = vec![];
            for i in 0..3 {
                let a = g.add_node(&["A"], &[("p", LV::Int(i as i64))]);
                let b = g.add_node(&["B"], &[("p", LV::Int(10 + i as i64))]);
                g.add_rel(a, b, "R", &[("w", LV::Int(i as i64))]);
                a_ids.push(a);
            }
            let c = g.add_node(&["C"], &[]);
            g.add_rel(c, a_ids[k - 1], "S", &[]);
        }
        "MULTI_UNIQUE" => {
            // node 1 holds 100..105 under :W; node 2 is a second :W node with 200..205; node 3+i is a
            // :T node whose value for key k<i> equals node 1's and whose other values are fresh
            let keys: Vec<String> = (0..MU_KEYS).map(|j| format!("k{j}")).collect();
            let mk = |g: &mut RefGraph, label: &str, tag: i64, f: &dyn Fn(usize) -> i64| {
                let mut props: Vec<(&str, LV)> = vec![("tag", LV::Int(tag))];
                for (j, k) in keys.iter().enumerate() {
                    props.push((k.as_str(), LV::Int(f(j))));
                }
                g.add_node(&[label], &props);
            };
            mk(&mut g, "W", 100, &|j| 100 + j as i64);
            mk(&mut g, "W", 200, &|j| 200 + j as i64);
            for i in 0..MU_KEYS {
                mk(&mut g, "T", i as i64, &|j| if j == i { 100 + j as i64 } else { 1000 * (i as i64 + 1) + j as i64 });
            }
        }
        _ => panic!("unknown start graph"),
    }
    g
}

fn cases(max_rows: usize) -> Vec<Case> {
    let mut out = vec![];
    let good = [1i64, 2, 5];
    // row-value lists with the failing value planted at every position
    for nrows in 1..=max_rows {
        for fail_at in 0..nrows {
            // --- division by zero templates
            let mut vals: Vec<i64> = (0..nrows).map(|i| good[i % 3]).collect();
            vals[fail_at] = 0;
            let mk = |vals: &[i64], tmpl: &str| -> Query {
                match tmpl {
                    "unwind_create_div" => Query::new(vec![unwind(vals, "x"), Clause::Create(vec![pp(n("n").l("A").p("p", div(lit_i(10), var("x"))))])]),
                    "unwind_create_path_div" => Query::new(vec![unwind(vals, "x"), Clause::Create(vec![pp(n("a").l("A").p("p", var("x"))).step(RelPat::new(Dir::Out).t("R").p("w", div(lit_i(10), var("x"))), n("b").l("B"))])]),
                    "unwind_merge_set_div" => Query::new(vec![unwind(vals, "x"), Clause::Merge { pat: pp(n("n").l("A").p("p", var("x"))), on_create: vec![], on_match: vec![] }, Clause::Set(vec![SetItem::Prop("n".into(), "q".into(), div(lit_i(10), var("x")))])]),
                    "unwind_match_set_div" => Query::new(vec![unwind(vals, "x"), Clause::Match { optional: false, pats: vec![pp(n("n").l("A"))], where_: None }, Clause::Set(vec![SetItem::Prop("n".into(), "q".into(), div(lit_i(10), var("x")))])]),
                    _ => unreachable!(),
                }
            };
            for (tmpl, starts) in [
                ("unwind_create_div", vec!["empty", "A0_A1"]),
                ("unwind_create_path_div", vec!["empty"]),
                ("unwind_merge_set_div", vec!["empty", "A0_A1"]),
                ("unwind_match_set_div", vec!["A0_A1"]),
            ] {
                for start in starts {
                    for setup in [vec![], vec!["CREATE INDEX ON :A(p)"], vec!["CREATE INDEX ON :A(q)"]] {
                        out.push(Case { template: tmpl, vals: vals.clone(), fail_at, setup: setup.clone(), start, stmt: mk(&vals, tmpl), prefix_stmt: Some(mk(&vals[..fail_at], tmpl)), text: None, single_row: false });
                    }
                }
            }
            // --- unique-constraint templates: the failing row repeats an earlier / existing value
            for (start, existing) in [("empty", None), ("U7", Some(7i64))] {
                let mut vals: Vec<i64> = (0..nrows).map(|i| good[i % 3]).collect();
                let dup = match existing {
                    Some(v) => v,
                    None => {
                        if fail_at == 0 {
                            continue; // nothing earlier to collide with
                        }
                        vals[0]
                    }
                };
                vals[fail_at] = dup;
                let mk = |vals: &[i64]| Query::new(vec![unwind(vals, "x"), Clause::Create(vec![pp(n("n").l("U").p("k", var("x")))])]);
                out.push(Case { template: "unwind_create_unique", vals: vals.clone(), fail_at, setup: vec!["CREATE CONSTRAINT ON (n:U) ASSERT n.k IS UNIQUE"], start, stmt: mk(&vals), prefix_stmt: Some(mk(&vals[..fail_at])), text: None, single_row: false });
            }
        }
    }
    // --- rows from a MATCH (engine's own order): every node is a row, one of them fails
    let set_div = Query::new(vec![Clause::Match { optional: false, pats: vec![pp(n("n").l("A"))], where_: None }, Clause::Set(vec![SetItem::Prop("n".into(), "q".into(), div(lit_i(10), prop("n", "p")))])]);
    for start in ["A1_A0_A2", "A0_A1"] {
        for setup in [vec![], vec!["CREATE INDEX ON :A(q)"]] {
            out.push(Case { template: "match_set_div", vals: vec![], fail_at: 0, setup: setup.clone(), start, stmt: set_div.clone(), prefix_stmt: None, text: None, single_row: false });
        }
    }
    let set_same = Query::new(vec![Clause::Match { optional: false, pats: vec![pp(n("n").l("U"))], where_: None }, Clause::Set(vec![SetItem::Prop("n".into(), "k".into(), lit_i(9))])]);
    out.push(Case { template: "match_set_unique", vals: vec![], fail_at: 0, setup: vec!["CREATE CONSTRAINT ON (n:U) ASSERT n.k IS UNIQUE"], start: "U1_U2_U3", stmt: set_same, prefix_stmt: None, text: None, single_row: false });
    let create_edge_div = Query::new(vec![Clause::Match { optional: false, pats: vec![pp(n("a").l("A")), pp(n("b").l("A"))], where_: None }, Clause::Create(vec![pp(n("a")).step(RelPat::new(Dir::Out).t("R").p("w", div(lit_i(10), prop("b", "p"))), n("b"))])]);
    out.push(Case { template: "match_create_edge_div", vals: vec![], fail_at: 0, setup: vec![], start: "A0_A1", stmt: create_edge_div, prefix_stmt: None, text: None, single_row: false });
    // --- a label with several unique constraints: the statement collides on exactly one key (every
    // key in turn) while its other values are fresh; nothing of the refused write may stay reserved
    let mu_setup: Vec<&'static str> = vec![
        "CREATE CONSTRAINT ON (n:W) ASSERT n.k0 IS UNIQUE",
        "CREATE CONSTRAINT ON (n:W) ASSERT n.k1 IS UNIQUE",
        "CREATE CONSTRAINT ON (n:W) ASSERT n.k2 IS UNIQUE",
        "CREATE CONSTRAINT ON (n:W) ASSERT n.k3 IS UNIQUE",
        "CREATE CONSTRAINT ON (n:W) ASSERT n.k4 IS UNIQUE",
        "CREATE CONSTRAINT ON (n:W) ASSERT n.k5 IS UNIQUE",
    ];
    let dummy = Query::new(vec![]);
    let mut mu = |template: &'static str, text: String| {
        out.push(Case { template, vals: vec![], fail_at: 0, setup: mu_setup.clone(), start: "MULTI_UNIQUE", stmt: dummy.clone(), prefix_stmt: None, single_row: template != "multi_unique_set_label_all_rows", text: Some(text) });
    };
    for i in 0..MU_KEYS {
        let map = |base: i64| (0..MU_KEYS).map(|j| format!("k{j}: {}", if j == i { 100 + j as i64 } else { base + j as i64 })).collect::<Vec<_>>().join(", ");
        mu("multi_unique_set_label", format!("MATCH (n:T {{tag: {i}}}) SET n:W"));
        mu("multi_unique_set_labels", format!("MATCH (n:T {{tag: {i}}}) SET n:X:W"));
        mu("multi_unique_create", format!("CREATE (:W {{{}}})", map(300)));
        mu("multi_unique_create_path", format!("CREATE (:X {{p: 1}})-[:R]->(:W {{{}}})", map(300)));
        mu("multi_unique_merge", format!("MERGE (n:W {{{}}})", map(300)));
        mu("multi_unique_set_map_add", format!("MATCH (n:W {{tag: 200}}) SET n += {{{}}}", map(300)));
        mu("multi_unique_set_map_replace", format!("MATCH (n:W {{tag: 200}}) SET n = {{{}}}", map(300)));
        mu("multi_unique_set_props", format!("MATCH (n:W {{tag: 200}}) SET {}", (0..MU_KEYS).map(|j| format!("n.k{j} = {}", if j == i { 100 + j as i64 } else { 300 + j as i64 })).collect::<Vec<_>>().join(", ")));
    }
    mu("multi_unique_set_label_all_rows", "MATCH (n:T) SET n:W".to_string());
    // --- plain DELETE that must be refused because one of the named nodes keeps a relationship
    // the statement does not name; the obstructed node sits at every row position
    for start in ["DEL_OBSTRUCTED_1", "DEL_OBSTRUCTED_2", "DEL_OBSTRUCTED_3"] {
        for (template, text) in [
            ("delete_refused_node_and_rel", "MATCH (a:A)-[r:R]->(:B) DELETE a, r"),
            ("delete_refused_rel_then_node", "MATCH (a:A)-[r:R]->(:B) DELETE r, a"),
            ("delete_refused_all_three", "MATCH (a:A)-[r:R]->(b:B) DELETE a, r, b"),
            ("delete_refused_node_only", "MATCH (a:A) DELETE a"),
            ("delete_refused_two_clauses", "MATCH (a:A)-[r:R]->(b:B) DELETE r DELETE a"),
            ("delete_refused_set_then_delete", "MATCH (a:A)-[r:R]->(b:B) SET b.q = 1 DELETE a, r"),
        ] {
            out.push(Case { template, vals: vec![], fail_at: 0, setup: vec![], start, stmt: dummy.clone(), prefix_stmt: None, single_row: false, text: Some(text.to_string()) });
        }
    }
    out
}

/// Everything the property names: graph (exact ids), index-backed lookups, constraint list.
#[derive(PartialEq, Debug, Clone)]
struct FullState {
    graph: RefGraph,
    lookups: Vec<(String, Vec<Vec<LV>>)>,
    constraints: Vec<(String, String)>,
    /// who holds each probed value under each unique constraint (the constraint index itself)
    holders: Vec<(String, String, i64, Option<u64>)>,
}
fn implied_holders(g: &RefGraph, constraints: &[(String, String)]) -> Vec<(String, String, i64, Option<u64>)> {
    let mut out = vec![];
    for (l, k) in constraints {
        for v in value_domain() {
            let h = g.nodes.iter().find(|(_, n)| n.labels.contains(l) && n.props.get(k) == Some(&LV::Int(v))).map(|(id, _)| *id);
            out.push((l.clone(), k.clone(), v, h));
        }
    }
    out
}
fn value_domain() -> Vec<i64> {
    let mut d: Vec<i64> = (0..=10).collect();
    for base in [100i64, 200, 300] {
        d.extend(base..base + 8);
    }
    for i in 1..=(MU_KEYS as i64 + 1) {
        d.extend(1000 * i..1000 * i + 8);
    }
    d
}
fn full_state(store: &GraphStore) -> FullState {
    let graph = dump(store);
    let mut lookups = vec![];
    for (label, key) in [("A", "p"), ("A", "q"), ("U", "k")] {
        for v in [0i64, 1, 2, 5, 7, 9, 10] {
            let q = format!("MATCH (n:{label} {{{key}: {v}}}) RETURN count(n) AS c");
            if let Ok(pq) = judge::parse(&q) {
                if let EngineOut::Rows(r) = judge::run_read(store, &pq) {
                    lookups.push((q, r));
                }
            }
        }
    }
    let mut constraints: Vec<(String, String)> = store.property_index.list_constraints().into_iter().map(|(l, p)| (l.as_str().to_string(), p)).collect();
    constraints.sort();
    let mut holders = vec![];
    for (l, k) in &constraints {
        for v in value_domain() {
            let h = store.property_index.unique_constraint_holder(&samyama::graph::Label::new(l.as_str()), k, &samyama::graph::PropertyValue::Integer(v));
            holders.push((l.clone(), k.clone(), v, h.map(|n| n.as_u64())));
        }
    }
    FullState { graph, lookups, constraints, holders }
}
/// Behavioural probes (run on a scratch store): which constrained values are still free.
fn probes(store: &mut GraphStore) -> Vec<(i64, bool)> {
    let mut out = vec![];
    for v in [1i64, 2, 5, 7, 9] {
        let q = format!("CREATE (n:U {{k: {v}}})");
        let ok = match judge::parse(&q) {
            Ok(pq) => matches!(judge::run_write(store, &pq, &BTreeMap::new()), EngineOut::Rows(_)),
            Err(_) => false,
        };
        out.push((v, ok));
    }
    out
}

fn prepare(c: &Case) -> Result<GraphStore, String> {
    let (mut store, _) = build(&start_graph(c.start), None);
    for ddl in &c.setup {
        let pq = judge::parse(ddl)?;
        match judge::run_write(&mut store, &pq, &BTreeMap::new()) {
            EngineOut::Rows(_) => {}
            o => return Err(format!("setup `{ddl}` failed: {o:?}")),
        }
    }
    Ok(store)
}

fn silence_stderr() {
    unsafe {
        let fd = libc::open(b"/dev/null\0".as_ptr() as *const libc::c_char, libc::O_WRONLY);
        if fd >= 0 {
            libc::dup2(fd, 2);
        }
    }
}

fn run_case(ctx: &svmc::Ctx, c: &Case, verbose: bool) -> (&'static str, bool) {
    let text = c.text();
    let witness = json!({"template": c.template, "start": c.start, "setup": c.setup, "statement": text, "fail_at_row": c.fail_at + 1, "rows": c.vals});
    let mut store = match prepare(c) {
        Ok(s) => s,
        Err(e) => {
            ctx.note(format!("setup not supported: {e}"));
            return ("setup_unsupported", false);
        }
    };
    let pre = full_state(&store);
    let pq = match judge::parse(&text) {
        Ok(p) => p,
        Err(_) => return ("parse_refused", false),
    };
    let out = judge::run_write(&mut store, &pq, &BTreeMap::new());
    if verbose {
        println!("statement: {text}\nstart: {} setup: {:?}\nengine: {:?}", start_graph(c.start).describe(), c.setup, out);
    }
    match out {
        EngineOut::Rows(_) => ("statement_succeeded", false), // not judged here (C04 judges effects)
        EngineOut::Panic(p) => {
            ctx.violation(&format!("panic:{}", c.template), format!("{text}: engine panicked: {p}"), witness);
            ("panic", true)
        }
        EngineOut::Err(_) => {
            let post = full_state(&store);
            if verbose {
                println!("before: {}\nafter : {}", pre.graph.describe(), post.graph.describe());
            }
            let mut aspects: Vec<(&str, String)> = vec![];
            let graph_same = post.graph == pre.graph;
            if !graph_same {
                aspects.push(("graph", format!("graph before [{}], after the failed statement [{}]", pre.graph.describe(), post.graph.describe())));
            }
            // the unique-constraint index must be what the graph after the statement implies (which,
            // for an unchanged graph, is what it was before)
            let implied = implied_holders(&post.graph, &post.constraints);
            if post.holders != implied {
                let diff: Vec<String> = implied.iter().zip(post.holders.iter()).filter(|(a, b)| a != b).take(4).map(|(a, b)| format!(":{}({})={} is held by {:?}, the graph says {:?}", a.0, a.1, a.2, b.3, a.3)).collect();
                aspects.push(("constraint_index", format!("the unique-constraint index holds reservations the graph does not back: {}", diff.join("; "))));
            }
            if post.constraints != pre.constraints {
                aspects.push(("constraint_list", format!("constraint list differs: {:?} vs {:?}", pre.constraints, post.constraints)));
            }
            if graph_same {
                if post.lookups != pre.lookups {
                    aspects.push(("index_lookups", "index-backed lookups differ after the failed statement".to_string()));
                }
                if post.holders != pre.holders && post.holders == implied {
                    aspects.push(("constraint_index", "the unique-constraint index differs after the failed statement".to_string()));
                }
                // behaviour of the constraint index: probe on scratch copies
                let mut a = prepare(c).unwrap();
                let pa = probes(&mut a);
                let pb = probes(&mut store);
                if pa != pb {
                    aspects.push(("constraint_behaviour", format!("constraint behaviour differs after the failed statement: before {pa:?}, after {pb:?}")));
                }
            }
            if aspects.is_empty() {
                return ("err_unchanged", true);
            }
            // region: were there rows before the failing one (statement streams its writes) or did
            // the failing row itself leave what it had already built
            let rows_before = if c.single_row { false } else if c.prefix_stmt.is_some() { c.fail_at >= 1 } else { true };
            let _ = isomorphic;
            for (aspect, what) in aspects {
                let sig = format!("{}:{}:{aspect}", if rows_before { "stream" } else { "partial_row" }, c.template);
                ctx.violation(&sig, format!("{text} on [{}] (setup {:?}) returned an error but {what}", start_graph(c.start).describe(), c.setup), witness.clone());
            }
            ("err_changed", true)
        }
    }
}

fn main() {
    run_check("C05", Level::FaultEnumeration, |ctx| {
        silence_stderr();
        let max_rows = if ctx.tier == Tier::Thorough { 4 } else { 3 };
        let cs = cases(max_rows);
        if let Some(p) = &ctx.replay {
            let doc: serde_json::Value = serde_json::from_str(&std::fs::read_to_string(p).expect("read")).expect("json");
            let w = &doc["witness"];
            let all = cases(4);
            match all.iter().find(|c| c.text() == w["statement"].as_str().unwrap() && c.start == w["start"].as_str().unwrap() && json!(c.setup) == w["setup"]) {
                Some(c) => {
                    run_case(ctx, c, true);
                }
                None => ctx.machinery("replay: case not found"),
            }
            return;
        }
        let mut outcomes: BTreeMap<&'static str, u64> = BTreeMap::new();
        let mut nontrivial = 0u64;
        for c in &cs {
            let (o, judged) = run_case(ctx, c, false);
            *outcomes.entry(o).or_default() += 1;
            if judged {
                nontrivial += 1;
            }
        }
        ctx.cov("evaluations", cs.len() as u64);
        ctx.cov("generator_cardinality", cs.len() as u64);
        ctx.cov("distinct_nontrivial", nontrivial);
        ctx.cov("rule", "a case = (statement template, row values with the failing value at position k of n, start graph, index/constraint setup), all distinct; non-trivial when the engine returned Err (or panicked), i.e. the before/after comparison actually ran");
        ctx.cov("outcomes", json!(outcomes));
        ctx.cov("exhaustive", true);
        ctx.cov("bounds", format!("n <= {max_rows} rows, failure at every position k <= n; templates: unwind_create_div, unwind_create_path_div, unwind_merge_set_div, unwind_match_set_div, unwind_create_unique, match_set_div, match_set_unique, match_create_edge_div; delete_refused_* (plain DELETE naming nodes and relationships where one node keeps an unnamed relationship, at each row position); multi_unique_* (label :W with six unique constraints; SET label / SET labels / CREATE / CREATE path / MERGE / SET += / SET = / SET items colliding on each key in turn, and MATCH (n:T) SET n:W over all rows)"));
        for c in cs.iter().step_by((cs.len() / 4).max(1)).take(4) {
            ctx.sample(json!({"template": c.template, "statement": c.text(), "start": c.start, "setup": c.setup, "fail_at_row": c.fail_at + 1}));
        }
        ctx.assume("a statement that returns Ok is not judged here (C04 judges effects); state = full dump with ids, index-backed lookups for every probed value, constraint list, and constraint behaviour probed on scratch copies");
    });
}
