//! C16 — recovery returns exactly the acknowledged persisted state (DESIGN §C16).
//!
//! Every history over {create node, create edge, delete node, delete edge, update node
//! properties, update edge properties} on 1 id, length <= 2 (quick) / 2 ids, length <= 3 (thorough), is run
//! by a worker child process on a real `PersistenceManager` (RocksDB + WAL directory). The child
//! dies (`_exit`, no destructors, user-space buffers lost) at every armed hook point inside
//! `persist_*`, once more right after every acknowledged operation, and once not at all (clean
//! shutdown). The parent reopens the directory, calls `PersistenceManager::recover` and compares
//! with the persistence-level reference (two id-keyed maps) for the acknowledged prefix, the
//! operation in flight being present or absent atomically.
use rayon::prelude::*;
use samyama::graph::{Edge, EdgeId, EdgeType, Label, Node, NodeId, PropertyMap, PropertyValue};
use samyama::persistence::PersistenceManager;
use serde_json::{json, Value};
use std::collections::{BTreeMap, BTreeSet};
use std::io::Write;
use std::path::{Path, PathBuf};
use std::sync::atomic::{AtomicU64, Ordering};
use std::sync::{Arc, Mutex};
use svmc::engine::ctx::guarded;
use svmc::engine::odometer;
use svmc::engine::subproc::{self, Outcome};
use svmc::{run_check, Ctx, Level};

const TENANT: &str = "default";

fn root() -> PathBuf {
    // VERIF_TMP lets an operator put the scratch directories on a faster file system
    let base = std::env::var("VERIF_TMP").unwrap_or_else(|_| "/verif/target/tmp".to_string());
    PathBuf::from(format!("{base}/c16-{}", std::process::id()))
}

#[derive(Clone, Copy, Debug, PartialEq, Eq, Hash, PartialOrd, Ord)]
enum Op {
    CreateNode(u64),
    CreateEdge(u64),
    DeleteNode(u64),
    DeleteEdge(u64),
    UpdateNode(u64),
    UpdateEdge(u64),
}
fn alphabet() -> Vec<Op> {
    let mut v = vec![];
    for id in [1u64, 2] {
        v.extend([Op::CreateNode(id), Op::CreateEdge(id), Op::DeleteNode(id), Op::DeleteEdge(id), Op::UpdateNode(id), Op::UpdateEdge(id)]);
    }
    v
}
fn op_json(o: &Op) -> Value {
    let s = format!("{:?}", o);
    json!(s)
}
fn op_parse(s: &str) -> Op {
    *alphabet().iter().find(|o| format!("{:?}", o) == s).expect("op")
}

// ---------------------------------------------------------------- reference: two id-keyed maps
type Props = BTreeMap<String, i64>;
#[derive(Clone, Debug, Default, PartialEq, Eq)]
struct G {
    nodes: BTreeMap<u64, (Vec<String>, Props)>,
    edges: BTreeMap<u64, (u64, u64, String, Props)>,
}
impl G {
    /// `stamp` makes every operation's content unique. Updates set one key that every created
    /// entity already has, so "merge" and "replace" readings of an update agree.
    fn apply(&mut self, op: &Op, stamp: i64, skip_updates: bool) {
        match op {
            Op::CreateNode(id) => {
                self.nodes.insert(*id, (vec!["L".to_string()], [("p".to_string(), stamp)].into_iter().collect()));
            }
            Op::CreateEdge(id) => {
                self.edges.insert(*id, (1, 2, "R".to_string(), [("w".to_string(), stamp)].into_iter().collect()));
            }
            Op::DeleteNode(id) => {
                self.nodes.remove(id);
            }
            Op::DeleteEdge(id) => {
                self.edges.remove(id);
            }
            Op::UpdateNode(id) => {
                if !skip_updates {
                    if let Some(n) = self.nodes.get_mut(id) {
                        n.1.insert("p".to_string(), stamp);
                    }
                }
            }
            Op::UpdateEdge(id) => {
                if !skip_updates {
                    if let Some(e) = self.edges.get_mut(id) {
                        e.3.insert("w".to_string(), stamp);
                    }
                }
            }
        }
    }
}
fn props_of(p: &PropertyMap) -> Props {
    p.iter().map(|(k, v)| (k.clone(), if let PropertyValue::Integer(i) = v { *i } else { i64::MIN })).collect()
}
fn pm1(k: &str, v: i64) -> PropertyMap {
    let mut m = PropertyMap::new();
    m.insert(k.to_string(), PropertyValue::Integer(v));
    m
}
fn apply_impl(pm: &PersistenceManager, op: &Op, stamp: i64) -> Result<(), String> {
    match op {
        Op::CreateNode(id) => {
            let mut n = Node::new(NodeId::new(*id), Label::new("L"));
            n.properties = pm1("p", stamp);
            pm.persist_create_node(TENANT, &n).map_err(|e| e.to_string())
        }
        Op::CreateEdge(id) => {
            let mut e = Edge::new(EdgeId::new(*id), NodeId::new(1), NodeId::new(2), EdgeType::new("R"));
            e.properties = pm1("w", stamp);
            pm.persist_create_edge(TENANT, &e).map_err(|e| e.to_string())
        }
        Op::DeleteNode(id) => pm.persist_delete_node(TENANT, *id).map_err(|e| e.to_string()),
        Op::DeleteEdge(id) => pm.persist_delete_edge(TENANT, *id).map_err(|e| e.to_string()),
        Op::UpdateNode(id) => pm.persist_update_node_properties(TENANT, *id, &pm1("p", stamp)).map_err(|e| e.to_string()),
        Op::UpdateEdge(id) => pm.persist_update_edge_properties(TENANT, *id, &pm1("w", stamp), 0).map_err(|e| e.to_string()),
    }
}

// ---------------------------------------------------------------- the child
static COUNT: AtomicU64 = AtomicU64::new(0);
static ARM: AtomicU64 = AtomicU64::new(0);
static POINTS: Mutex<Option<std::fs::File>> = Mutex::new(None);

/// The worker stays single-threaded and forks one grandchild per case (process creation by
/// fork is far cheaper than exec); the grandchild opens the store, runs the history and dies.
fn child_case(line: &str) -> String {
    let pid = unsafe { libc::fork() };
    if pid < 0 {
        return "fork_failed".into();
    }
    if pid == 0 {
        let r = run_history(line);
        // clean end of a history: report through a file, the stdout pipe belongs to the worker
        let v: Value = serde_json::from_str(line).expect("case json");
        let _ = std::fs::write(PathBuf::from(v["dir"].as_str().unwrap()).join("result"), r);
        unsafe { libc::_exit(0) }
    }
    let mut status: libc::c_int = 0;
    loop {
        let r = unsafe { libc::waitpid(pid, &mut status, 0) };
        if r == pid || r < 0 {
            break;
        }
    }
    if libc::WIFEXITED(status) {
        format!("exit {}", libc::WEXITSTATUS(status))
    } else if libc::WIFSIGNALED(status) {
        format!("signal {}", libc::WTERMSIG(status))
    } else {
        format!("status {status}")
    }
}

fn run_history(line: &str) -> String {
    let v: Value = serde_json::from_str(line).expect("case json");
    let dir = PathBuf::from(v["dir"].as_str().unwrap());
    let ops: Vec<Op> = v["ops"].as_array().unwrap().iter().map(|o| op_parse(o.as_str().unwrap())).collect();
    let arm_point = v["arm_point"].as_u64().unwrap_or(0); // die when the k-th pm.* hook point is reached
    let arm_after = v["arm_after_op"].as_i64().unwrap_or(-1); // die right after acknowledging op i
    COUNT.store(0, Ordering::SeqCst);
    ARM.store(arm_point, Ordering::SeqCst);
    *POINTS.lock().unwrap() = Some(std::fs::File::create(dir.join("points")).expect("points file"));
    let mut acks = std::fs::File::create(dir.join("acks")).expect("acks file");
    samyama::verif_hooks::set_callback(Some(Arc::new(|label: &'static str, _arg: u64| {
        if !label.starts_with("pm.") || label.starts_with("pm.recover") {
            return;
        }
        let n = COUNT.fetch_add(1, Ordering::SeqCst) + 1;
        if let Some(f) = POINTS.lock().unwrap().as_mut() {
            let _ = writeln!(f, "{label}");
        }
        if n == ARM.load(Ordering::SeqCst) {
            // the crash: no destructors, no flushing of user-space buffers
            unsafe { libc::_exit(77) }
        }
    })));
    let pm = match PersistenceManager::new(dir.join("db")) {
        Ok(p) => p,
        Err(e) => return format!("open_error {e}"),
    };
    for (i, op) in ops.iter().enumerate() {
        match apply_impl(&pm, op, i as i64 + 1) {
            Ok(()) => {
                let _ = writeln!(acks, "{i} ok");
            }
            Err(e) => {
                let _ = writeln!(acks, "{i} err {}", e.replace('\n', " "));
            }
        }
        if arm_after == i as i64 {
            unsafe { libc::_exit(77) }
        }
    }
    drop(pm);
    "done".into()
}

// ---------------------------------------------------------------- the parent
#[derive(Clone, Debug)]
struct Case {
    ops: Vec<Op>,
    arm_point: u64,
    arm_after: i64,
    /// label of the armed point (filled from the clean run's point list)
    label: String,
    dir: PathBuf,
}
impl Case {
    fn line(&self) -> String {
        json!({"dir": self.dir.to_string_lossy(), "ops": self.ops.iter().map(op_json).collect::<Vec<_>>(), "arm_point": self.arm_point, "arm_after_op": self.arm_after}).to_string()
    }
    fn witness(&self) -> Value {
        json!({"ops": self.ops.iter().map(op_json).collect::<Vec<_>>(), "arm_point": self.arm_point, "arm_after_op": self.arm_after, "crash_at": self.label})
    }
}
static DIRCTR: AtomicU64 = AtomicU64::new(0);
fn fresh_dir() -> PathBuf {
    let d = root().join(format!("c{}", DIRCTR.fetch_add(1, Ordering::Relaxed)));
    let _ = std::fs::remove_dir_all(&d);
    std::fs::create_dir_all(&d).expect("mkdir");
    d
}

fn recover_dir(dir: &Path) -> Result<(G, Vec<String>), String> {
    let pm = PersistenceManager::new(dir.join("db")).map_err(|e| format!("reopen: {e}"))?;
    let (nodes, edges) = pm.recover(TENANT).map_err(|e| format!("recover: {e}"))?;
    let mut g = G::default();
    let mut notes = vec![];
    for n in &nodes {
        let mut labels: Vec<String> = n.labels.iter().map(|l| l.as_str().to_string()).collect();
        labels.sort();
        if g.nodes.insert(n.id.as_u64(), (labels, props_of(&n.properties))).is_some() {
            notes.push(format!("node {} returned twice", n.id.as_u64()));
        }
    }
    for e in &edges {
        if g.edges.insert(e.id.as_u64(), (e.source.as_u64(), e.target.as_u64(), e.edge_type.as_str().to_string(), props_of(&e.properties))).is_some() {
            notes.push(format!("edge {} returned twice", e.id.as_u64()));
        }
    }
    Ok((g, notes))
}

struct Judged {
    vio: Option<(String, String)>,
    nontrivial: bool,
    points: Vec<String>,
    class: &'static str,
}

fn read_lines(p: &Path) -> Vec<String> {
    std::fs::read_to_string(p).map(|s| s.lines().map(|l| l.to_string()).collect()).unwrap_or_default()
}

fn judge(c: &Case, out: &Outcome, verbose: bool) -> Judged {
    let points = read_lines(&c.dir.join("points"));
    let acks = read_lines(&c.dir.join("acks"));
    let crash_armed = c.arm_point > 0 || c.arm_after >= 0;
    let kind = if c.arm_point > 0 { c.label.clone() } else if c.arm_after >= 0 { "after_return".to_string() } else { "clean_shutdown".to_string() };
    // the child must have ended the way the case says
    let result = std::fs::read_to_string(c.dir.join("result")).unwrap_or_default();
    match out {
        Outcome::Done(s) if s == "exit 0" && result == "done" && !crash_armed => {}
        Outcome::Done(s) if s == "exit 77" && crash_armed => {}
        other => {
            return Judged { vio: Some((format!("child:unexpected_end:{kind}"), format!("child ended with {other:?} (result file: {result:?})"))), nontrivial: false, points, class: "child" };
        }
    }
    // acknowledged prefix
    let mut acked = G::default();
    let mut acked_noupd = G::default();
    let mut n_ack = 0usize;
    for (i, l) in acks.iter().enumerate() {
        let mut it = l.splitn(3, ' ');
        let idx: usize = it.next().and_then(|x| x.parse().ok()).unwrap_or(usize::MAX);
        if idx != i {
            return Judged { vio: Some(("machinery:acks".into(), format!("ack file out of order: {acks:?}"))), nontrivial: false, points, class: "machinery" };
        }
        if it.next() == Some("ok") {
            acked.apply(&c.ops[i], i as i64 + 1, false);
            acked_noupd.apply(&c.ops[i], i as i64 + 1, true);
        } else {
            return Judged { vio: Some((format!("op_refused:{}", format!("{:?}", c.ops[i]).split('(').next().unwrap_or("")), format!("operation {:?} returned an error: {l}", c.ops[i]))), nontrivial: false, points, class: "refused" };
        }
        n_ack = i + 1;
    }
    let inflight = if c.arm_point > 0 && n_ack < c.ops.len() { Some(c.ops[n_ack]) } else { None };
    let mut with = acked.clone();
    let mut with_noupd = acked_noupd.clone();
    if let Some(op) = &inflight {
        with.apply(op, n_ack as i64 + 1, false);
        with_noupd.apply(op, n_ack as i64 + 1, true);
    }
    let nontrivial = inflight.is_some() && with != acked;
    let (got, notes) = match guarded(|| recover_dir(&c.dir)) {
        Ok(Ok(x)) => x,
        Ok(Err(e)) => return Judged { vio: Some((format!("recover:error:{kind}"), e)), nontrivial, points, class: "error" },
        Err(p) => return Judged { vio: Some((format!("recover:panic:{kind}"), p)), nontrivial, points, class: "panic" },
    };
    if verbose {
        println!("acknowledged: {:?}; in flight: {:?}; crash at: {kind}", &c.ops[..n_ack], inflight);
        println!("expected (acknowledged):            {:?}", acked);
        if inflight.is_some() {
            println!("expected (acknowledged + in flight): {:?}", with);
        }
        println!("recovered:                           {:?}", got);
    }
    if !notes.is_empty() {
        return Judged { vio: Some(("recover:duplicate_id".into(), notes.join("; "))), nontrivial, points, class: "duplicate" };
    }
    if got == acked || got == with {
        let class = if inflight.is_none() {
            "exact"
        } else if with == acked {
            "inflight_invisible"
        } else if got == with {
            "inflight_present"
        } else {
            "inflight_absent"
        };
        return Judged { vio: None, nontrivial, points, class };
    }
    // classify: is the difference exactly the acknowledged property updates?
    let has_upd = c.ops[..n_ack].iter().any(|o| matches!(o, Op::UpdateNode(_) | Op::UpdateEdge(_)));
    if has_upd && (got == acked_noupd || got == with_noupd) {
        let n = c.ops[..n_ack].iter().any(|o| matches!(o, Op::UpdateNode(_)));
        let e = c.ops[..n_ack].iter().any(|o| matches!(o, Op::UpdateEdge(_)));
        // which entity kinds actually differ
        let dn = got.nodes != acked.nodes && got.nodes != with.nodes;
        let de = got.edges != acked.edges && got.edges != with.edges;
        let what = match (n && dn, e && de) {
            (true, true) => "node_and_edge",
            (true, false) => "node",
            (false, true) => "edge",
            _ => "none",
        };
        return Judged {
            vio: Some((format!("acknowledged_update_lost:{what}"), format!("history {:?} (crash: {kind}): recovered {:?}; acknowledged state {:?} — equal to the state without the acknowledged property update(s)", c.ops, got, acked))),
            nontrivial,
            points,
            class: "update_lost",
        };
    }
    Judged { vio: Some((format!("unclassified:recover_mismatch:{kind}"), format!("history {:?}: recovered {:?}; acknowledged {:?}; with in-flight {:?} {:?}", c.ops, got, acked, inflight, with))), nontrivial, points, class: "mismatch" }
}

fn opts(conc: usize) -> subproc::Opts {
    subproc::Opts { concurrency: conc, timeout: std::time::Duration::from_secs(120), env: vec![("RUST_BACKTRACE".into(), "0".into())], rlimit_as: None }
}

/// Run a batch of cases in worker children, then recover + judge each in the parent.
fn run_batch(cases: &mut [Case]) -> Vec<Judged> {
    for c in cases.iter_mut() {
        c.dir = fresh_dir();
    }
    let lines: Vec<String> = cases.iter().map(|c| c.line()).collect();
    let mut outs = subproc::run_cases("crash", &lines, &opts(16));
    for (j, o) in outs.iter_mut().enumerate() {
        if *o == Outcome::Timeout {
            // loaded machine: run it alone with a generous limit before believing a hang
            cases[j].dir = fresh_dir();
            let mut o2 = opts(1);
            o2.timeout = std::time::Duration::from_secs(600);
            *o = subproc::run_cases("crash", &[cases[j].line()], &o2).remove(0);
        }
    }
    let res: Vec<Judged> = cases.par_iter().zip(outs.par_iter()).map(|(c, o)| judge(c, o, false)).collect();
    for c in cases.iter() {
        let _ = std::fs::remove_dir_all(&c.dir);
    }
    res
}

/// Quota phase: the tenant is at (or near) its quota, so some creations are REFUSED. A refused
/// operation was never acknowledged and must leave nothing for recovery to find. Every history up
/// to `maxlen` over creations / deletions on two ids, quota of one node and one relationship, clean
/// shutdown, reopen, recover. In-process (no crash): the question is what a refusal leaves behind.
fn quota_phase(ctx: &Ctx, maxlen: usize) -> (u64, u64, u64) {
    use samyama::persistence::ResourceQuotas;
    let alpha = [Op::CreateNode(1), Op::CreateNode(2), Op::CreateEdge(1), Op::CreateEdge(2), Op::DeleteNode(1), Op::DeleteEdge(1)];
    let hists: Vec<Vec<Op>> = odometer::sequences_upto(alpha.len(), maxlen).map(|s| s.iter().map(|&i| alpha[i]).collect()).collect();
    let results: Vec<(Vec<Op>, u64, Option<(String, String)>)> = hists
        .par_iter()
        .map(|h| {
            let dir = fresh_dir();
            let mut acked = G::default();
            let mut refused = 0u64;
            let r = guarded(|| -> Result<(), String> {
                let pm = PersistenceManager::new(dir.join("db")).map_err(|e| format!("open: {e}"))?;
                let mut q = ResourceQuotas::unlimited();
                q.max_nodes = Some(1);
                q.max_edges = Some(1);
                if pm.tenants().update_quotas(TENANT, q.clone()).is_err() {
                    pm.tenants().create_tenant(TENANT.to_string(), "C16".to_string(), Some(q)).map_err(|e| format!("create_tenant: {e}"))?;
                }
                for (i, op) in h.iter().enumerate() {
                    match apply_impl(&pm, op, i as i64 + 1) {
                        Ok(()) => acked.apply(op, i as i64 + 1, false),
                        Err(_) => refused += 1,
                    }
                }
                drop(pm);
                Ok(())
            });
            let vio = match r {
                Err(p) => Some(("quota:panic".to_string(), format!("history {h:?} panicked: {p}"))),
                Ok(Err(e)) => Some(("quota:machinery".to_string(), e)),
                Ok(Ok(())) => match recover_dir(&dir) {
                    Err(e) => Some(("quota:recover_error".to_string(), format!("history {h:?}: {e}"))),
                    Ok((g, _)) => {
                        if g != acked {
                            Some(("quota:refused_operation_left_something".to_string(), format!("history {h:?} under a quota of 1 node / 1 relationship ({refused} operation(s) refused): recovered {:?}, the acknowledged operations give {:?}", g, acked)))
                        } else {
                            None
                        }
                    }
                },
            };
            let _ = std::fs::remove_dir_all(&dir);
            (h.clone(), refused, vio)
        })
        .collect();
    let (mut n, mut with_refusal, mut nvio) = (0u64, 0u64, 0u64);
    for (h, refused, vio) in results {
        n += 1;
        if refused > 0 {
            with_refusal += 1;
        }
        if let Some((sig, msg)) = vio {
            if sig == "quota:machinery" {
                ctx.machinery(&msg);
            }
            nvio += 1;
            ctx.violation(&sig, msg, json!({"kind": "quota", "ops": h.iter().map(|o| format!("{:?}", o)).collect::<Vec<_>>()}));
        }
    }
    (n, with_refusal, nvio)
}

fn main() {
    if subproc::worker_arg().is_some() {
        subproc::worker_main(|line| child_case(line));
    }
    run_check("C16", Level::FaultEnumeration, |ctx| {
        if let Some(p) = ctx.replay.clone() {
            replay(ctx, &p);
            let _ = std::fs::remove_dir_all(root());
            return;
        }
        let maxlen = ctx.tier.pick(2, 3);
        // quick: one id (6 operations); thorough: two ids (12 operations). Every case costs two
        // RocksDB open/close cycles, which dominate the run time.
        let alpha: Vec<Op> = if ctx.quick() { alphabet().into_iter().take(6).collect() } else { alphabet() };
        let hists: Vec<Vec<Op>> = odometer::sequences_upto(alpha.len(), maxlen).map(|s| s.iter().map(|&i| alpha[i]).collect()).collect();
        println!("{} histories of length <= {maxlen} over {} operations", hists.len(), alpha.len());
        // phase 1: clean runs (also yields each history's hook-point list)
        let mut clean: Vec<Case> = hists.iter().map(|h| Case { ops: h.clone(), arm_point: 0, arm_after: -1, label: "clean_shutdown".into(), dir: PathBuf::new() }).collect();
        let mut all: Vec<(Case, Judged)> = vec![];
        let mut crash_cases: Vec<Case> = vec![];
        // hook points reached by each history (histories come shortest first, so a prefix is known)
        let mut prefix_points: std::collections::HashMap<Vec<Op>, usize> = std::collections::HashMap::new();
        for chunk in clean.chunks_mut(512) {
            let js = run_batch(chunk);
            for (c, j) in chunk.iter().zip(js.into_iter()) {
                // A crash inside (or right after) an earlier operation of this history is the very
                // same execution as that crash in the shorter history ending there (the child dies
                // before it looks at the next operation), and that history is enumerated too: only
                // the crash points of the last operation are new.
                let before_last = prefix_points.get(&c.ops[..c.ops.len().saturating_sub(1)].to_vec()).copied().unwrap_or(0);
                prefix_points.insert(c.ops.clone(), j.points.len());
                if !c.ops.is_empty() {
                    for (k, label) in j.points.iter().enumerate().skip(before_last) {
                        crash_cases.push(Case { ops: c.ops.clone(), arm_point: k as u64 + 1, arm_after: -1, label: label.clone(), dir: PathBuf::new() });
                    }
                    crash_cases.push(Case { ops: c.ops.clone(), arm_point: 0, arm_after: c.ops.len() as i64 - 1, label: "after_return".into(), dir: PathBuf::new() });
                }
                all.push((c.clone(), j));
            }
        }
        println!("clean-shutdown cases: {}; crash cases: {}", all.len(), crash_cases.len());
        let planned = (all.len() + crash_cases.len()) as u64;
        let deadline_s: u64 = std::env::var("VERIF_DEADLINE_S").ok().and_then(|s| s.parse().ok()).unwrap_or(1500);
        let t0 = std::time::Instant::now();
        let mut cap_hit = false;
        for chunk in crash_cases.chunks_mut(1024) {
            if t0.elapsed().as_secs() > deadline_s {
                cap_hit = true; // never called exhaustive
                break;
            }
            let js = run_batch(chunk);
            for (c, j) in chunk.iter().zip(js.into_iter()) {
                all.push((c.clone(), j));
            }
        }
        let mut classes: BTreeMap<String, u64> = BTreeMap::new();
        let mut labels: BTreeSet<String> = BTreeSet::new();
        let mut nontrivial = 0u64;
        for (c, j) in &all {
            *classes.entry(j.class.to_string()).or_default() += 1;
            labels.insert(c.label.clone());
            if j.nontrivial {
                nontrivial += 1;
            }
            if let Some((sig, msg)) = &j.vio {
                if sig.starts_with("machinery") {
                    ctx.machinery(msg);
                }
                ctx.violation(sig, msg.clone(), c.witness());
            }
        }
        let (qn, qref, _qv) = quota_phase(ctx, ctx.tier.pick(3, 4));
        ctx.cov("quota_phase", json!({"histories": qn, "histories_with_a_refused_operation": qref, "quota": "1 node, 1 relationship", "alphabet": "CreateNode{1,2} CreateEdge{1,2} DeleteNode(1) DeleteEdge(1)"}));
        ctx.assume("quota phase: an operation refused by the tenant's quota is not acknowledged and must leave nothing that recovery returns");
        let total = all.len() as u64;
        ctx.cov("evaluations", total);
        ctx.cov("generator_cardinality", planned);
        ctx.cov("exhaustive", !cap_hit);
        ctx.cov("cap_hit", cap_hit);
        ctx.cov("histories", hists.len() as u64);
        ctx.cov("max_history_length", maxlen as u64);
        ctx.cov("distinct_nontrivial", nontrivial);
        ctx.cov("rule", "a (history, crash point) case is non-trivial if the crash lies inside an operation whose effect changes the reference state, so that 'in flight present' and 'in flight absent' are different recovered graphs");
        ctx.cov("crash_point_labels", json!(labels));
        ctx.cov("outcome_classes", json!(classes));
        ctx.sample(json!({"ops": ["CreateNode(1)"], "crash_at": "pm.create_node.after_wal"}));
        if let Some((c, _)) = all.iter().find(|(c, j)| j.class == "inflight_present" && c.ops.len() >= 2) {
            ctx.sample(c.witness());
        }
        if let Some((c, _)) = all.iter().find(|(c, j)| j.class == "inflight_absent" && c.ops.len() >= 2) {
            ctx.sample(c.witness());
        }
        ctx.assume("the crash is a process death (_exit without destructors): user-space buffers are lost, completed write() calls are not; power loss is not modelled");
        ctx.assume("re-creating an existing id replaces the stored entity; deleting or updating a missing id is acknowledged and has no effect; referential integrity is not part of the persistence-level model");
        ctx.assume("updates set a key the entity already has, so the 'merge' and 'replace' readings of an update request coincide");
        ctx.assume("the operation in flight at the crash may be present or absent, atomically; wall-clock fields and versions are not compared");
        println!("outcome classes: {}", json!(classes));
        let _ = std::fs::remove_dir_all(root());
    });
}

fn replay(ctx: &Ctx, p: &Path) {
    let doc: Value = serde_json::from_str(&std::fs::read_to_string(p).expect("read replay")).expect("json");
    let w = &doc["witness"];
    if w["kind"] == "quota" {
        let len = w["ops"].as_array().map(|a| a.len()).unwrap_or(3);
        let (n, r, v) = quota_phase(ctx, len);
        println!("quota phase up to length {len}: {n} histories, {r} with a refused operation, {v} violating");
        return;
    }
    let ops: Vec<Op> = w["ops"].as_array().unwrap().iter().map(|o| op_parse(o.as_str().unwrap())).collect();
    let mut c = Case { ops, arm_point: w["arm_point"].as_u64().unwrap_or(0), arm_after: w["arm_after_op"].as_i64().unwrap_or(-1), label: w["crash_at"].as_str().unwrap_or("").to_string(), dir: fresh_dir() };
    println!("history {:?}, crash at {} (point #{}, after op {})", c.ops, c.label, c.arm_point, c.arm_after);
    let out = subproc::run_cases("crash", &[c.line()], &opts(1)).remove(0);
    println!("child: {:?}; hook points reached: {:?}", out, read_lines(&c.dir.join("points")));
    let j = judge(&c, &out, true);
    match j.vio {
        Some((sig, msg)) => {
            println!("  MISMATCH [{sig}] {msg}");
            ctx.violation(&sig, msg, w.clone());
        }
        None => println!("  recovered state is admissible ({})", j.class),
    }
    let _ = std::fs::remove_dir_all(&c.dir);
    c.dir = PathBuf::new();
}
