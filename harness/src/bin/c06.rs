//! C06 — graph store read views always agree with the graph that was built.
//! hx over GraphStore against a plain reference multigraph (DESIGN §C06).
use samyama::graph::{EdgeId, EdgeType, GraphStore, Label, NodeId, PropertyMap, PropertyValue};
use serde_json::json;
use std::collections::{BTreeMap, BTreeSet};
use svmc::engine::hx::{self, Model, Step};
use svmc::{run_check, Level};

const LABELS: [&str; 2] = ["A", "B"];
const TYPES: [&str; 2] = ["R", "S"];

#[derive(Clone, Debug, PartialEq, Eq, Hash, PartialOrd, Ord)]
enum Op {
    CreateNode(u8),
    CreateNodeStub(u8),
    CreateEdge(u64, u64, u8),
    CreateEdgeProps(u64, u64, u8),
    CreateEdgeStub(u64, u64, u8),
    DeleteEdge(u64),
    DeleteNode(u64),
    AddLabel(u64, u8),
    RemoveLabel(u64, u8),
    SetProp(u64, i64),
    Compact,
    FinishBulkLoad,
}

#[derive(Clone, Debug, PartialEq, Eq, Hash, PartialOrd, Ord)]
struct RNode {
    labels: BTreeSet<String>,
    p: Option<i64>,
}
#[derive(Clone, Debug, PartialEq, Eq, Hash, PartialOrd, Ord)]
struct REdge {
    src: u64,
    dst: u64,
    ty: String,
    w: Option<i64>,
    stub: bool,
}
#[derive(Clone, Debug, Default)]
struct Ref {
    nodes: BTreeMap<u64, RNode>,
    edges: BTreeMap<u64, REdge>,
    free_nodes: Vec<u64>,
    free_edges: Vec<u64>,
    next_node: u64,
    next_edge: u64,
    types: Vec<String>,
    /// true while a stub edge has been created since the last finish_bulk_load
    stubs_pending: bool,
    /// allocation policy prediction failed: stop merging (key gets the history)
    alloc_diverged: bool,
    hist: Vec<Op>,
}

struct St {
    g: GraphStore,
    r: Ref,
}

struct M {
    max_nodes: usize,
    max_edges: usize,
    /// non-initial start state: these operations are applied (unchecked, not part of the explored
    /// history) before exploration starts
    prefix: Vec<Op>,
}

fn lab(i: u8) -> Label {
    Label::new(LABELS[i as usize])
}
fn ety(i: u8) -> EdgeType {
    EdgeType::new(TYPES[i as usize])
}

impl Ref {
    fn alloc_node(&mut self) -> u64 {
        if let Some(id) = self.free_nodes.pop() {
            id
        } else {
            let id = self.next_node;
            self.next_node += 1;
            id
        }
    }
    fn alloc_edge(&mut self) -> u64 {
        if let Some(id) = self.free_edges.pop() {
            id
        } else {
            let id = self.next_edge;
            self.next_edge += 1;
            id
        }
    }
    fn intern(&mut self, t: &str) {
        if !self.types.iter().any(|x| x == t) {
            self.types.push(t.to_string());
        }
    }
    fn del_edge(&mut self, e: u64) {
        if self.edges.remove(&e).is_some() {
            self.free_edges.push(e);
        }
    }
}

impl Model for M {
    type Op = Op;
    type State = St;
    type Key = String;
    fn init(&self) -> St {
        let mut st = St { g: GraphStore::new(), r: Ref { next_node: 1, next_edge: 1, ..Default::default() } };
        for op in &self.prefix {
            self.apply(&mut st, op, false);
        }
        st
    }
    fn ops(&self, st: &St) -> Vec<Op> {
        let mut v = vec![];
        let r = &st.r;
        if r.nodes.len() < self.max_nodes {
            for l in 0..2 {
                v.push(Op::CreateNode(l));
            }
            for l in 0..2 {
                v.push(Op::CreateNodeStub(l));
            }
        }
        let ids: Vec<u64> = r.nodes.keys().copied().collect();
        if r.edges.len() < self.max_edges {
            for &s in &ids {
                for &d in &ids {
                    for t in 0..2 {
                        v.push(Op::CreateEdge(s, d, t));
                    }
                    v.push(Op::CreateEdgeProps(s, d, 0));
                    for t in 0..2 {
                        v.push(Op::CreateEdgeStub(s, d, t));
                    }
                }
            }
        }
        for &e in r.edges.keys() {
            v.push(Op::DeleteEdge(e));
        }
        for &n in &ids {
            v.push(Op::DeleteNode(n));
            for l in 0..2 {
                v.push(Op::AddLabel(n, l));
                v.push(Op::RemoveLabel(n, l));
            }
            v.push(Op::SetProp(n, 1));
            v.push(Op::SetProp(n, 2));
        }
        v.push(Op::Compact);
        v.push(Op::FinishBulkLoad);
        v
    }
    fn apply(&self, st: &mut St, op: &Op, check: bool) -> Step {
        let mut vio: Vec<(String, String)> = vec![];
        let g = &mut st.g;
        let r = &mut st.r;
        r.hist.push(op.clone());
        let outcome;
        match op {
            Op::CreateNode(l) | Op::CreateNodeStub(l) => {
                let want = r.alloc_node();
                let got = if matches!(op, Op::CreateNode(_)) { g.create_node(lab(*l)) } else { g.create_node_stub(lab(*l)) };
                let id = got.as_u64();
                if id != want {
                    r.alloc_diverged = true; // allocation policy differs from LIFO: stop merging states
                    r.free_nodes.retain(|x| *x != id);
                }
                if r.nodes.contains_key(&id) {
                    vio.push(("create_node:id_in_use".into(), format!("create returned id {id} which is live")));
                }
                r.nodes.insert(id, RNode { labels: [LABELS[*l as usize].to_string()].into_iter().collect(), p: None });
                outcome = "ok".to_string();
            }
            Op::CreateEdge(s, d, t) | Op::CreateEdgeProps(s, d, t) | Op::CreateEdgeStub(s, d, t) => {
                let (s, d) = (*s, *d);
                let want = r.alloc_edge();
                let res = match op {
                    Op::CreateEdge(..) => g.create_edge(NodeId::new(s), NodeId::new(d), ety(*t)).map_err(|e| e.to_string()),
                    Op::CreateEdgeProps(..) => {
                        let mut pm = PropertyMap::new();
                        pm.insert("w".into(), PropertyValue::Integer(1));
                        g.create_edge_with_properties(NodeId::new(s), NodeId::new(d), ety(*t), pm).map_err(|e| e.to_string())
                    }
                    _ => g.create_edge_stub(NodeId::new(s), NodeId::new(d), ety(*t)).map_err(|e| e.to_string()),
                };
                match res {
                    Ok(eid) => {
                        let id = eid.as_u64();
                        if id != want {
                            r.alloc_diverged = true;
                            r.free_edges.retain(|x| *x != id);
                        }
                        if r.edges.contains_key(&id) {
                            vio.push(("create_edge:id_in_use".into(), format!("create returned edge id {id} which is live")));
                        }
                        let stub = matches!(op, Op::CreateEdgeStub(..));
                        r.intern(TYPES[*t as usize]);
                        r.edges.insert(
                            id,
                            REdge { src: s, dst: d, ty: TYPES[*t as usize].to_string(), w: if matches!(op, Op::CreateEdgeProps(..)) { Some(1) } else { None }, stub },
                        );
                        if stub {
                            r.stubs_pending = true;
                        }
                        outcome = "ok".into();
                    }
                    Err(e) => {
                        vio.push(("create_edge:refused".into(), format!("create_edge between live nodes {s}->{d} refused: {e}")));
                        outcome = "err".into();
                    }
                }
            }
            Op::DeleteEdge(e) => {
                match g.delete_edge(EdgeId::new(*e)) {
                    Ok(_) => outcome = "ok".into(),
                    Err(er) => {
                        vio.push(("delete_edge:refused".into(), format!("delete of live edge {e} refused: {er}")));
                        outcome = "err".into();
                    }
                }
                r.del_edge(*e);
            }
            Op::DeleteNode(n) => {
                // the implementation removes incident edges in this order: frozen-out, buffer-out,
                // frozen-in, buffer-in (read from its raw tiers *before* the call) — mirrored here
                // only to predict the order in which edge ids reach the free list.
                let nid = NodeId::new(*n);
                let mut order: Vec<u64> = vec![];
                order.extend(g.frozen_outgoing_neighbors(*n as usize).iter().map(|x| x.1.as_u64()));
                order.extend(g.get_outgoing_neighbor_slice(nid).iter().map(|x| x.1.as_u64()));
                order.extend(g.frozen_incoming_neighbors(*n as usize).iter().map(|x| x.1.as_u64()));
                order.extend(g.get_incoming_neighbor_slice(nid).iter().map(|x| x.1.as_u64()));
                match g.delete_node("default", nid) {
                    Ok(_) => outcome = "ok".into(),
                    Err(er) => {
                        vio.push(("delete_node:refused".into(), format!("delete of live node {n} refused: {er}")));
                        outcome = "err".into();
                    }
                }
                if r.nodes.remove(n).is_some() {
                    r.free_nodes.push(*n);
                    for e in order {
                        let incident = r.edges.get(&e).map(|x| x.src == *n || x.dst == *n).unwrap_or(false);
                        if incident {
                            r.del_edge(e);
                        }
                    }
                    let rest: Vec<u64> = r.edges.iter().filter(|(_, e)| e.src == *n || e.dst == *n).map(|(k, _)| *k).collect();
                    for e in rest {
                        // incident edge the implementation's adjacency did not list: order unknown
                        r.edges.remove(&e);
                        r.alloc_diverged = true;
                    }
                }
            }
            Op::AddLabel(n, l) => {
                let res = g.add_label_to_node("default", NodeId::new(*n), lab(*l));
                if let Err(e) = res {
                    vio.push(("add_label:refused".into(), format!("{e}")));
                }
                r.nodes.get_mut(n).unwrap().labels.insert(LABELS[*l as usize].into());
                outcome = "ok".into();
            }
            Op::RemoveLabel(n, l) => {
                let had = r.nodes.get_mut(n).unwrap().labels.remove(LABELS[*l as usize]);
                match g.remove_label_from_node(NodeId::new(*n), &lab(*l)) {
                    Ok(b) => {
                        if b != had {
                            vio.push(("remove_label:result".into(), format!("returned {b}, node had label: {had}")));
                        }
                        outcome = format!("{b}");
                    }
                    Err(e) => {
                        vio.push(("remove_label:refused".into(), format!("{e}")));
                        outcome = "err".into();
                    }
                }
            }
            Op::SetProp(n, v) => {
                if let Err(e) = g.set_node_property("default", NodeId::new(*n), "p", PropertyValue::Integer(*v)) {
                    vio.push(("set_prop:refused".into(), format!("{e}")));
                }
                r.nodes.get_mut(n).unwrap().p = Some(*v);
                outcome = "ok".into();
            }
            Op::Compact => {
                g.compact_adjacency();
                outcome = "ok".into();
            }
            Op::FinishBulkLoad => {
                g.finish_bulk_load();
                r.stubs_pending = false;
                outcome = "ok".into();
            }
        }
        // While stub relationships await the bulk-load step the adjacency buffer is, by the
        // stub API's contract, unsorted and unindexed: the property quantifies over stub loads
        // *finished by the bulk-load step*, so read views are judged only when none is pending.
        if check && !r.stubs_pending {
            compare(g, r, &mut vio);
        }
        Step { violations: vio, outcome }
    }
    fn key(&self, st: &St) -> String {
        let r = &st.r;
        let g = &st.g;
        if r.alloc_diverged {
            return format!("H{:?}", r.hist);
        }
        // reference graph + implementation's raw tiers + free lists / next ids / type table
        let maxn = r.next_node;
        let mut tiers = String::new();
        for i in 1..maxn {
            tiers.push_str(&format!(
                "{}:{:?}|{:?}|{:?}|{:?};",
                i,
                g.frozen_outgoing_neighbors(i as usize),
                g.frozen_incoming_neighbors(i as usize),
                g.get_outgoing_neighbor_slice(NodeId::new(i)),
                g.get_incoming_neighbor_slice(NodeId::new(i))
            ));
        }
        let free_edges = format!("{:?}", r.free_edges);
        // residue of ids that are free right now: anything a later owner of the id could inherit
        // must keep states apart, or the history that leaves residue is merged with one that does
        // not and never expanded (seeded change C04: delete_edge kept the property map of a
        // relationship that had no version-log entry)
        let mut residue = String::new();
        for e in 1..r.next_edge {
            if !r.edges.contains_key(&e) {
                residue.push_str(&format!("e{e}:{:?}/{:?};", g.get_edge_properties(EdgeId::new(e)).map(|m| m.len()), g.edge_columns.get_property(e as usize, "w")));
            }
        }
        for n in 1..r.next_node {
            if !r.nodes.contains_key(&n) {
                residue.push_str(&format!("n{n}:{:?};", g.node_columns.get_property(n as usize, "p")));
            }
        }
        format!(
            "{:?}|{:?}|{:?}|{}|{}|{}|{:?}|{}|{}|segs{}|res{}",
            r.nodes,
            r.edges,
            r.free_nodes,
            free_edges,
            r.next_node,
            r.next_edge,
            r.types,
            r.stubs_pending,
            tiers,
            g.adjacency_stats().frozen_segments,
            residue
        )
    }
}

fn ms<T: Ord + Clone>(v: impl IntoIterator<Item = T>) -> Vec<T> {
    let mut v: Vec<T> = v.into_iter().collect();
    v.sort();
    v
}

fn compare(g: &GraphStore, r: &Ref, vio: &mut Vec<(String, String)>) {
    macro_rules! chk {
        ($sig:expr, $got:expr, $want:expr, $($ctx:tt)*) => {
            let got = $got; let want = $want;
            if got != want {
                vio.push(($sig.to_string(), format!("{}: got {:?}, reference {:?}", format!($($ctx)*), got, want)));
            }
        };
    }
    let maxn = r.next_node + 1;
    let maxe = r.next_edge + 1;
    // nodes
    for n in 1..=maxn {
        let nid = NodeId::new(n);
        let rn = r.nodes.get(&n);
        chk!("has_node", g.has_node(nid), rn.is_some(), "has_node({n})");
        let got = g.get_node(nid).map(|x| (ms(x.labels.iter().map(|l| l.as_str().to_string())), x.properties.get("p").cloned()));
        let want = rn.map(|x| (ms(x.labels.iter().cloned()), x.p.map(PropertyValue::Integer)));
        chk!("get_node", got, want, "get_node({n})");
        if let Some(rn) = rn {
            let full = g.node_properties_full(nid);
            let mut fk: Vec<_> = full.iter().filter(|(_, v)| !v.is_null()).map(|(k, v)| (k.clone(), v.clone())).collect();
            fk.sort_by(|a, b| a.0.cmp(&b.0));
            let want: Vec<(String, PropertyValue)> = rn.p.map(|v| ("p".to_string(), PropertyValue::Integer(v))).into_iter().collect();
            chk!("node_properties_full", fk, want, "node_properties_full({n})");
        }
        // adjacency views
        let out_want = ms(r.edges.iter().filter(|(_, e)| e.src == n).map(|(k, e)| (e.dst, *k)));
        let in_want = ms(r.edges.iter().filter(|(_, e)| e.dst == n).map(|(k, e)| (e.src, *k)));
        chk!("get_outgoing_edges", ms(g.get_outgoing_edges(nid).iter().map(|e| (e.target.as_u64(), e.id.as_u64()))), out_want.clone(), "get_outgoing_edges({n})");
        chk!("get_incoming_edges", ms(g.get_incoming_edges(nid).iter().map(|e| (e.source.as_u64(), e.id.as_u64()))), in_want.clone(), "get_incoming_edges({n})");
        for e in g.get_outgoing_edges(nid) {
            if e.source.as_u64() != n {
                vio.push(("get_outgoing_edges".into(), format!("get_outgoing_edges({n}) returned edge {} whose source is {}", e.id.as_u64(), e.source.as_u64())));
            }
        }
        for e in g.get_incoming_edges(nid) {
            if e.target.as_u64() != n {
                vio.push(("get_incoming_edges".into(), format!("get_incoming_edges({n}) returned edge {} whose target is {}", e.id.as_u64(), e.target.as_u64())));
            }
        }
        chk!(
            "get_outgoing_edge_targets",
            ms(g.get_outgoing_edge_targets(nid).iter().map(|(e, s, t, ty)| (e.as_u64(), s.as_u64(), t.as_u64(), ty.as_str().to_string()))),
            ms(r.edges.iter().filter(|(_, e)| e.src == n).map(|(k, e)| (*k, e.src, e.dst, e.ty.clone()))),
            "get_outgoing_edge_targets({n})"
        );
        chk!(
            "get_incoming_edge_sources",
            ms(g.get_incoming_edge_sources(nid).iter().map(|(e, s, t, ty)| (e.as_u64(), s.as_u64(), t.as_u64(), ty.as_str().to_string()))),
            ms(r.edges.iter().filter(|(_, e)| e.dst == n).map(|(k, e)| (*k, e.src, e.dst, e.ty.clone()))),
            "get_incoming_edge_sources({n})"
        );
        let mut got = vec![];
        g.for_each_outgoing_neighbor(nid, None, |t, e| got.push((t.as_u64(), e.as_u64())));
        chk!("for_each_outgoing_neighbor", ms(got), out_want.clone(), "for_each_outgoing_neighbor({n}, any)");
        let mut got = vec![];
        g.for_each_incoming_neighbor(nid, None, |t, e| got.push((t.as_u64(), e.as_u64())));
        chk!("for_each_incoming_neighbor", ms(got), in_want.clone(), "for_each_incoming_neighbor({n}, any)");
        let mut got = vec![];
        g.for_each_outgoing_neighbor(nid, Some(&[]), |t, e| got.push((t.as_u64(), e.as_u64())));
        chk!("for_each_outgoing_neighbor", got, Vec::<(u64, u64)>::new(), "for_each_outgoing_neighbor({n}, Some([]))");
        for ty in TYPES.iter().chain(["Z"].iter()) {
            let et = EdgeType::new(*ty);
            let tid = g.edge_type_id(&et);
            let out_t = ms(r.edges.iter().filter(|(_, e)| e.src == n && e.ty == *ty).map(|(k, e)| (e.dst, *k)));
            let in_t = ms(r.edges.iter().filter(|(_, e)| e.dst == n && e.ty == *ty).map(|(k, e)| (e.src, *k)));
            let ids: Vec<u16> = tid.into_iter().collect();
            let mut got = vec![];
            g.for_each_outgoing_neighbor(nid, Some(&ids), |t, e| got.push((t.as_u64(), e.as_u64())));
            chk!("for_each_outgoing_neighbor", ms(got), out_t.clone(), "for_each_outgoing_neighbor({n}, :{ty})");
            let mut got = vec![];
            g.for_each_incoming_neighbor(nid, Some(&ids), |t, e| got.push((t.as_u64(), e.as_u64())));
            chk!("for_each_incoming_neighbor", ms(got), in_t.clone(), "for_each_incoming_neighbor({n}, :{ty})");
            let mut got = vec![];
            g.for_each_outgoing_neighbor_of_type(nid, &et, |t| got.push(t.as_u64()));
            chk!("for_each_outgoing_neighbor_of_type", ms(got), ms(out_t.iter().map(|x| x.0)), "for_each_outgoing_neighbor_of_type({n}, :{ty})");
            let mut got = vec![];
            g.for_each_incoming_neighbor_of_type(nid, &et, |t| got.push(t.as_u64()));
            chk!("for_each_incoming_neighbor_of_type", ms(got), ms(in_t.iter().map(|x| x.0)), "for_each_incoming_neighbor_of_type({n}, :{ty})");
            chk!("outgoing_degree_for_type", g.outgoing_degree_for_type(nid, &et), out_t.len(), "outgoing_degree_for_type({n}, :{ty})");
            chk!("incoming_degree_for_type", g.incoming_degree_for_type(nid, &et), in_t.len(), "incoming_degree_for_type({n}, :{ty})");
        }
        // edges_between
        for d in 1..=maxn {
            let did = NodeId::new(d);
            let want_any = ms(r.edges.iter().filter(|(_, e)| e.src == n && e.dst == d).map(|(k, _)| *k));
            chk!("edges_between", ms(g.edges_between(nid, did, None).iter().map(|e| e.as_u64())), want_any.clone(), "edges_between({n},{d},any)");
            let eb = g.edge_between(nid, did, None).map(|e| e.as_u64());
            if eb.is_some() != !want_any.is_empty() || eb.map(|e| !want_any.contains(&e)).unwrap_or(false) {
                vio.push(("edge_between".into(), format!("edge_between({n},{d},any) = {eb:?}, reference set {want_any:?}")));
            }
            for ty in TYPES.iter().chain(["Z"].iter()) {
                let et = EdgeType::new(*ty);
                let want = ms(r.edges.iter().filter(|(_, e)| e.src == n && e.dst == d && e.ty == *ty).map(|(k, _)| *k));
                chk!("edges_between", ms(g.edges_between(nid, did, Some(&et)).iter().map(|e| e.as_u64())), want.clone(), "edges_between({n},{d},:{ty})");
                let eb = g.edge_between(nid, did, Some(&et)).map(|e| e.as_u64());
                if eb.is_some() != !want.is_empty() || eb.map(|e| !want.contains(&e)).unwrap_or(false) {
                    vio.push(("edge_between".into(), format!("edge_between({n},{d},:{ty}) = {eb:?}, reference set {want:?}")));
                }
            }
        }
    }
    // edges
    for e in 1..=maxe {
        let eid = EdgeId::new(e);
        let re = r.edges.get(&e);
        chk!("has_edge", g.has_edge(eid), re.is_some(), "has_edge({e})");
        let got = g.get_edge(eid).map(|x| (x.source.as_u64(), x.target.as_u64(), x.edge_type.as_str().to_string(), x.properties.get("w").cloned(), x.properties.len()));
        let want = re.map(|x| (x.src, x.dst, x.ty.clone(), x.w.map(PropertyValue::Integer), x.w.iter().count()));
        chk!("get_edge", got, want, "get_edge({e})");
        chk!("get_edge_endpoints", g.get_edge_endpoints(eid).map(|(a, b)| (a.as_u64(), b.as_u64())), re.map(|x| (x.src, x.dst)), "get_edge_endpoints({e})");
        chk!("get_edge_type", g.get_edge_type(eid).map(|t| t.as_str().to_string()), re.map(|x| x.ty.clone()), "get_edge_type({e})");
    }
    // labels
    for l in LABELS.iter().chain(["Z"].iter()) {
        let lb = Label::new(*l);
        let want = ms(r.nodes.iter().filter(|(_, n)| n.labels.contains(*l)).map(|(k, _)| *k));
        chk!("get_nodes_by_label", ms(g.get_nodes_by_label(&lb).iter().map(|n| n.id.as_u64())), want.clone(), "get_nodes_by_label({l})");
        chk!("nodes_with_label", ms(g.nodes_with_label(&lb).map(|s| s.iter().map(|n| n.as_u64()).collect::<Vec<_>>()).unwrap_or_default()), want.clone(), "nodes_with_label({l})");
        chk!("node_ids_by_label", ms(g.node_ids_by_label(&lb, None).iter().map(|n| n.as_u64())), want.clone(), "node_ids_by_label({l})");
        chk!("label_node_count", g.label_node_count(&lb), want.len(), "label_node_count({l})");
    }
    // types
    for ty in TYPES.iter().chain(["Z"].iter()) {
        let et = EdgeType::new(*ty);
        let got = ms(g.get_edges_by_type(&et).iter().map(|e| e.id.as_u64()));
        let all = ms(r.edges.iter().filter(|(_, e)| e.ty == *ty).map(|(k, _)| *k));
        if !r.stubs_pending {
            chk!("get_edges_by_type", got, all, "get_edges_by_type({ty})");
        } else {
            // contract: stub edges are indexed by finish_bulk_load; until then the
            // result must contain every full edge and nothing that is not a live edge of the type
            let full = ms(r.edges.iter().filter(|(_, e)| e.ty == *ty && !e.stub).map(|(k, _)| *k));
            let dup = got.windows(2).any(|w| w[0] == w[1]);
            if dup || !full.iter().all(|x| got.contains(x)) || !got.iter().all(|x| all.contains(x)) {
                vio.push(("get_edges_by_type".into(), format!("get_edges_by_type({ty}) = {got:?}; full edges {full:?}, all live {all:?}")));
            }
        }
    }
    chk!("node_count", g.node_count(), r.nodes.len(), "node_count");
    chk!("edge_count", g.edge_count(), r.edges.len(), "edge_count");
    chk!("all_edges", ms(g.all_edges().iter().map(|e| e.id.as_u64())), ms(r.edges.keys().copied()), "all_edges");
    chk!("all_nodes", ms(g.all_nodes().iter().map(|n| n.id.as_u64())), ms(r.nodes.keys().copied()), "all_nodes");
    // no relationship dangles from a missing node
    for e in g.all_edges() {
        if !g.has_node(e.source) || !g.has_node(e.target) {
            vio.push(("dangling_edge".into(), format!("edge {} ({}->{}) has a missing endpoint", e.id.as_u64(), e.source.as_u64(), e.target.as_u64())));
        }
    }
}

fn silence_stderr() {
    unsafe {
        let fd = libc::open(b"/dev/null\0".as_ptr() as *const libc::c_char, libc::O_WRONLY);
        if fd >= 0 {
            libc::dup2(fd, 2);
        }
    }
}

fn main() {
    run_check("C06", Level::ModelChecking, |ctx| {
        silence_stderr(); // compact_adjacency prints one line per call
        let (depth, max_nodes, max_edges) = match ctx.tier {
            svmc::Tier::Quick => (4, 3, 3),
            svmc::Tier::Thorough => (6, 3, 3),
        };
        let m = M { max_nodes, max_edges, prefix: vec![] };
        // second pass from a non-initial start state: two nodes, one relationship between them, already
        // compacted (frozen tier). Deleting a compacted relationship and reusing its id is six
        // operations from the empty store -- beyond the quick depth (seeded change C06b)
        let m2 = M { max_nodes, max_edges, prefix: vec![Op::CreateNode(0), Op::CreateNode(1), Op::CreateEdge(1, 2, 0), Op::Compact] };
        if let Some(p) = &ctx.replay {
            let doc: serde_json::Value = serde_json::from_str(&std::fs::read_to_string(p).expect("read replay")).expect("json");
            if doc["witness"]["start"] == "compacted_pair" {
                replay(ctx, &m2, p);
            } else {
                replay(ctx, &m, p);
            }
            return;
        }
        let mut stats = hx::explore(&m, depth, 50_000_000, |v| {
            ctx.violation(&v.sig, v.msg, json!({"history": v.history.iter().map(|o| format!("{:?}", o)).collect::<Vec<_>>()}));
        });
        let depth2 = match ctx.tier {
            svmc::Tier::Quick => 3,
            svmc::Tier::Thorough => 4,
        };
        let stats2 = hx::explore(&m2, depth2, 50_000_000, |v| {
            ctx.violation(&v.sig, v.msg, json!({"start": "compacted_pair", "prefix": m2.prefix.iter().map(|o| format!("{:?}", o)).collect::<Vec<_>>(), "history": v.history.iter().map(|o| format!("{:?}", o)).collect::<Vec<_>>()}));
        });
        ctx.cov("second_pass_from_compacted_pair", json!({"prefix": m2.prefix.iter().map(|o| format!("{:?}", o)).collect::<Vec<_>>(), "depth": depth2, "states": stats2.states, "transitions": stats2.transitions}));
        stats.states += stats2.states;
        stats.transitions += stats2.transitions;
        stats.cap_hit |= stats2.cap_hit;
        hx::report(ctx, &stats, "create_node{A,B} create_node_stub{A,B} create_edge{R,S} create_edge_with_properties{R,w:1} create_edge_stub{R,S} delete_edge delete_node add_label remove_label set_node_property{p:1,2} compact_adjacency finish_bulk_load; <=3 live nodes, <=3 live edges");
        ctx.assume("reference model: plain labelled multigraph (BTreeMaps); id free lists predicted LIFO and validated at every allocation");
        ctx.assume("get_edges_by_type is compared exactly only when no stub edge is pending finish_bulk_load (API contract)");
    });
}

fn replay(ctx: &svmc::Ctx, m: &M, p: &std::path::Path) {
    let doc: serde_json::Value = serde_json::from_str(&std::fs::read_to_string(p).expect("read replay")).expect("json");
    let hist: Vec<String> = doc["witness"]["history"].as_array().unwrap().iter().map(|s| s.as_str().unwrap().to_string()).collect();
    let mut st = m.init();
    for (i, want) in hist.iter().enumerate() {
        let ops = m.ops(&st);
        let op = ops.iter().find(|o| &format!("{:?}", o) == want).unwrap_or_else(|| ctx.machinery(&format!("replay: op {want} not enabled at step {i}")));
        let step = m.apply(&mut st, op, true);
        println!("step {i}: {want} -> {}", step.outcome);
        for (sig, msg) in step.violations {
            println!("  MISMATCH [{sig}] {msg}");
            ctx.violation(&sig, msg, json!({"history": hist[..=i]}));
        }
    }
}
