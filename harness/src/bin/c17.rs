//! C17 — persistent storage never mixes tenants (DESIGN §C17).
//!
//! Exhaustive pairs and triples of tenant names (prefixes of one another, adjacent in sort
//! order, containing the key separator ':') x every sequence of <= 3 puts/deletes of nodes and
//! relationships with colliding ids, on a real RocksDB-backed `PersistenceManager`; after every
//! sequence every tenant's `get_node`/`get_edge`/`scan_nodes`/`scan_edges`/`recover` and the
//! tenant listing must contain exactly what was stored for that tenant.
use rayon::prelude::*;
use samyama::graph::{Edge, EdgeId, EdgeType, Label, Node, NodeId, PropertyValue};
use samyama::persistence::{PersistenceManager, TenantManager};
use serde_json::{json, Value};
use std::collections::{BTreeMap, BTreeSet, HashSet};
use std::path::PathBuf;
use std::sync::atomic::{AtomicU64, Ordering};
use std::sync::Mutex;
use svmc::engine::ctx::guarded;
use svmc::engine::odometer;
use svmc::{run_check, Ctx, Level};

const NAMES: [&str; 10] = ["a", "b", "aa", "a:", "a:n", "a:n:0000000000000001", "A", "", "default", "é"];

fn root() -> PathBuf {
    // VERIF_TMP lets an operator put the scratch directories on a faster file system
    let base = std::env::var("VERIF_TMP").unwrap_or_else(|_| "/verif/target/tmp".to_string());
    PathBuf::from(format!("{base}/c17-{}", std::process::id()))
}

#[derive(Clone, Copy, Debug, PartialEq, Eq, Hash, PartialOrd, Ord)]
enum Kind {
    PutNode,
    DelNode,
    PutEdge,
    DelEdge,
}
const KINDS: [Kind; 4] = [Kind::PutNode, Kind::DelNode, Kind::PutEdge, Kind::DelEdge];
#[derive(Clone, Copy, Debug, PartialEq, Eq, Hash, PartialOrd, Ord)]
struct Op {
    t: usize,
    kind: Kind,
    id: u64,
}

/// What is stored for one tenant: id -> (owner tenant index, stamp of the op that wrote it)
#[derive(Clone, Debug, Default, PartialEq, Eq, Hash, PartialOrd, Ord)]
struct TenantRef {
    nodes: BTreeMap<u64, (i64, i64)>,
    edges: BTreeMap<u64, (i64, i64)>,
}

fn mk_node(t: usize, id: u64, stamp: i64) -> Node {
    let mut n = Node::new(NodeId::new(id), Label::new(format!("T{t}")));
    n.set_property("owner", PropertyValue::Integer(t as i64));
    n.set_property("stamp", PropertyValue::Integer(stamp));
    n
}
fn mk_edge(t: usize, id: u64, stamp: i64) -> Edge {
    let mut e = Edge::new(EdgeId::new(id), NodeId::new(10 + t as u64), NodeId::new(20 + t as u64), EdgeType::new(format!("E{t}")));
    e.set_property("owner", PropertyValue::Integer(t as i64));
    e.set_property("stamp", PropertyValue::Integer(stamp));
    e
}
fn int(p: Option<&PropertyValue>) -> i64 {
    match p {
        Some(PropertyValue::Integer(i)) => *i,
        _ => i64::MIN,
    }
}
/// (id, owner, stamp, marker consistent?) of a returned node
fn node_obs(n: &Node) -> (u64, i64, i64, bool) {
    let owner = int(n.properties.get("owner"));
    let ok = n.labels.len() == 1 && n.labels.iter().next().map(|l| l.as_str() == format!("T{owner}")).unwrap_or(false) && n.properties.len() == 2;
    (n.id.as_u64(), owner, int(n.properties.get("stamp")), ok)
}
fn edge_obs(e: &Edge) -> (u64, i64, i64, bool) {
    let owner = int(e.properties.get("owner"));
    let ok = e.edge_type.as_str() == format!("E{owner}") && e.source.as_u64() == (10 + owner) as u64 && e.target.as_u64() == (20 + owner) as u64 && e.properties.len() == 2;
    (e.id.as_u64(), owner, int(e.properties.get("stamp")), ok)
}

/// Relation between the tenant whose view is read and the tenant that owns a foreign record.
fn relation(reader: &str, owner: &str) -> &'static str {
    if owner.starts_with(&format!("{reader}:")) {
        "owner_name_extends_reader_name_with_separator"
    } else if reader.starts_with(&format!("{owner}:")) {
        "reader_name_extends_owner_name_with_separator"
    } else if owner > reader {
        "owner_sorts_after_reader"
    } else {
        "owner_sorts_before_reader"
    }
}

type Vio = (String, String);

struct Subject {
    pm: PersistenceManager,
    _dir: PathBuf,
}
static DIRCTR: AtomicU64 = AtomicU64::new(0);
fn open_subject(names: &[&str]) -> Result<Subject, String> {
    let dir = root().join(format!("db{}", DIRCTR.fetch_add(1, Ordering::Relaxed)));
    let _ = std::fs::remove_dir_all(&dir);
    std::fs::create_dir_all(&dir).map_err(|e| e.to_string())?;
    let pm = PersistenceManager::new(&dir).map_err(|e| format!("PersistenceManager::new: {e}"))?;
    for n in names {
        if *n != "default" {
            pm.tenants().create_tenant(n.to_string(), format!("tenant {n}"), None).map_err(|e| format!("create_tenant({n:?}): {e}"))?;
        }
    }
    Ok(Subject { pm, _dir: dir })
}
impl Drop for Subject {
    fn drop(&mut self) {
        let _ = std::fs::remove_dir_all(&self._dir);
    }
}

fn apply_op(s: &Subject, names: &[&str], op: &Op, stamp: i64, model: &mut [TenantRef], vio: &mut Vec<Vio>) {
    let st = s.pm.storage();
    let t = names[op.t];
    let r = match op.kind {
        Kind::PutNode => {
            model[op.t].nodes.insert(op.id, (op.t as i64, stamp));
            guarded(|| st.put_node(t, &mk_node(op.t, op.id, stamp)).map_err(|e| e.to_string()))
        }
        Kind::DelNode => {
            model[op.t].nodes.remove(&op.id);
            guarded(|| st.delete_node(t, op.id).map_err(|e| e.to_string()))
        }
        Kind::PutEdge => {
            model[op.t].edges.insert(op.id, (op.t as i64, stamp));
            guarded(|| st.put_edge(t, &mk_edge(op.t, op.id, stamp)).map_err(|e| e.to_string()))
        }
        Kind::DelEdge => {
            model[op.t].edges.remove(&op.id);
            guarded(|| st.delete_edge(t, op.id).map_err(|e| e.to_string()))
        }
    };
    match r {
        Ok(Ok(())) => {}
        Ok(Err(e)) => vio.push((format!("{:?}:error", op.kind), format!("{:?} for tenant {t:?} failed: {e}", op.kind))),
        Err(p) => vio.push((format!("{:?}:panic", op.kind), p)),
    }
}

/// Compare one returned collection with the reference for the reading tenant.
fn judge_set(view: &str, names: &[&str], reader: usize, got: &[(u64, i64, i64, bool)], want: &BTreeMap<u64, (i64, i64)>, vio: &mut Vec<Vio>) {
    let mut seen: BTreeSet<u64> = BTreeSet::new();
    for (id, owner, stamp, ok) in got {
        if *owner != reader as i64 {
            let oname = names.get(*owner as usize).copied().unwrap_or("?");
            vio.push((
                format!("{view}:foreign_record:{}", relation(names[reader], oname)),
                format!("{view}({:?}) returned record {id} stored for tenant {oname:?}", names[reader]),
            ));
            continue;
        }
        if !*ok {
            vio.push((format!("{view}:garbled_record"), format!("{view}({:?}) returned record {id} whose label/type/endpoints do not match its owner mark", names[reader])));
        }
        if !seen.insert(*id) {
            vio.push((format!("{view}:duplicate"), format!("{view}({:?}) returned record {id} twice", names[reader])));
        }
        match want.get(id) {
            None => vio.push((format!("{view}:deleted_or_never_stored"), format!("{view}({:?}) returned record {id} which is not stored for that tenant", names[reader]))),
            Some((_, s)) if s != stamp => vio.push((format!("{view}:stale"), format!("{view}({:?}) returned record {id} with stamp {stamp}, last write had {s}", names[reader]))),
            _ => {}
        }
    }
    for id in want.keys() {
        if !seen.contains(id) {
            vio.push((format!("{view}:missing"), format!("{view}({:?}) does not return record {id} stored for that tenant", names[reader])));
        }
    }
}

fn observe(s: &Subject, names: &[&str], ids: &[u64], model: &[TenantRef], vio: &mut Vec<Vio>, recover_too: bool) {
    let st = s.pm.storage();
    for (ti, t) in names.iter().enumerate() {
        for &id in ids {
            match guarded(|| st.get_node(t, id).map_err(|e| e.to_string())) {
                Ok(Ok(n)) => {
                    let got: Vec<_> = n.iter().map(node_obs).collect();
                    let want: BTreeMap<u64, (i64, i64)> = model[ti].nodes.iter().filter(|(k, _)| **k == id).map(|(k, v)| (*k, *v)).collect();
                    judge_set("get_node", names, ti, &got, &want, vio);
                }
                Ok(Err(e)) => vio.push(("get_node:error".into(), format!("get_node({t:?},{id}): {e}"))),
                Err(p) => vio.push(("get_node:panic".into(), p)),
            }
            match guarded(|| st.get_edge(t, id).map_err(|e| e.to_string())) {
                Ok(Ok(n)) => {
                    let got: Vec<_> = n.iter().map(edge_obs).collect();
                    let want: BTreeMap<u64, (i64, i64)> = model[ti].edges.iter().filter(|(k, _)| **k == id).map(|(k, v)| (*k, *v)).collect();
                    judge_set("get_edge", names, ti, &got, &want, vio);
                }
                Ok(Err(e)) => vio.push(("get_edge:error".into(), format!("get_edge({t:?},{id}): {e}"))),
                Err(p) => vio.push(("get_edge:panic".into(), p)),
            }
        }
        match guarded(|| st.scan_nodes(t).map_err(|e| e.to_string())) {
            Ok(Ok(v)) => judge_set("scan_nodes", names, ti, &v.iter().map(node_obs).collect::<Vec<_>>(), &model[ti].nodes, vio),
            Ok(Err(e)) => vio.push(("scan_nodes:error".into(), format!("scan_nodes({t:?}): {e}"))),
            Err(p) => vio.push(("scan_nodes:panic".into(), p)),
        }
        match guarded(|| st.scan_edges(t).map_err(|e| e.to_string())) {
            Ok(Ok(v)) => judge_set("scan_edges", names, ti, &v.iter().map(edge_obs).collect::<Vec<_>>(), &model[ti].edges, vio),
            Ok(Err(e)) => vio.push(("scan_edges:error".into(), format!("scan_edges({t:?}): {e}"))),
            Err(p) => vio.push(("scan_edges:panic".into(), p)),
        }
        if recover_too {
            match guarded(|| s.pm.recover(t).map_err(|e| e.to_string())) {
                Ok(Ok((n, e))) => {
                    judge_set("recover.nodes", names, ti, &n.iter().map(node_obs).collect::<Vec<_>>(), &model[ti].nodes, vio);
                    judge_set("recover.edges", names, ti, &e.iter().map(edge_obs).collect::<Vec<_>>(), &model[ti].edges, vio);
                }
                Ok(Err(e)) => vio.push(("recover:error".into(), format!("recover({t:?}): {e}"))),
                Err(p) => vio.push(("recover:panic".into(), p)),
            }
        }
    }
    match guarded(|| s.pm.list_persisted_tenants().map_err(|e| e.to_string())) {
        Ok(Ok(l)) => {
            let got: BTreeSet<String> = l.iter().cloned().collect();
            if got.len() != l.len() {
                vio.push(("list_persisted_tenants:duplicate".into(), format!("listing {l:?} repeats a name")));
            }
            for g in &got {
                match names.iter().position(|n| n == g) {
                    None => vio.push(("list_persisted_tenants:name_of_no_tenant".into(), format!("listing contains {g:?}; tenants with data: {:?}", names.iter().enumerate().filter(|(i, _)| !model[*i].nodes.is_empty() || !model[*i].edges.is_empty()).map(|(_, n)| n).collect::<Vec<_>>()))),
                    Some(i) => {
                        if model[i].nodes.is_empty() && model[i].edges.is_empty() {
                            vio.push(("list_persisted_tenants:tenant_without_data".into(), format!("listing contains {g:?}, which has nothing stored; tenants with data: {:?}", names.iter().enumerate().filter(|(i, _)| !model[*i].nodes.is_empty() || !model[*i].edges.is_empty()).map(|(_, n)| n).collect::<Vec<_>>())));
                        }
                    }
                }
            }
            for (i, n) in names.iter().enumerate() {
                // a tenant that holds only relationships may or may not be listed (the listing reads the node keys)
                if !model[i].nodes.is_empty() && !got.contains(*n) {
                    vio.push(("list_persisted_tenants:missing".into(), format!("listing {l:?} lacks {n:?}, which has nodes stored")));
                }
            }
        }
        Ok(Err(e)) => vio.push(("list_persisted_tenants:error".into(), e)),
        Err(p) => vio.push(("list_persisted_tenants:panic".into(), p)),
    }
}

/// Remove everything a case can have written and prove the store is empty again.
fn wipe(s: &Subject, names: &[&str], ids: &[u64]) -> Result<(), String> {
    let st = s.pm.storage();
    for t in names {
        for &id in ids {
            st.delete_node(t, id).map_err(|e| e.to_string())?;
            st.delete_edge(t, id).map_err(|e| e.to_string())?;
        }
    }
    for t in names {
        for &id in ids {
            if st.get_node(t, id).map_err(|e| e.to_string())?.is_some() || st.get_edge(t, id).map_err(|e| e.to_string())?.is_some() {
                return Err(format!("wipe left a record behind for {t:?}"));
            }
        }
    }
    if !s.pm.list_persisted_tenants().map_err(|e| e.to_string())?.is_empty() {
        return Err("wipe left node keys behind".into());
    }
    Ok(())
}

fn run_case(s: &Subject, names: &[&str], ids: &[u64], ops: &[Op]) -> (Vec<Vio>, Vec<TenantRef>) {
    let mut model: Vec<TenantRef> = vec![TenantRef::default(); names.len()];
    let mut vio = vec![];
    for (i, op) in ops.iter().enumerate() {
        apply_op(s, names, op, i as i64 + 1, &mut model, &mut vio);
    }
    observe(s, names, ids, &model, &mut vio, true);
    (vio, model)
}

fn witness(names: &[&str], ops: &[Op]) -> Value {
    json!({"tenants": names, "ops": ops.iter().map(|o| json!([o.t, format!("{:?}", o.kind), o.id])).collect::<Vec<_>>()})
}

struct Plan {
    names: Vec<&'static str>,
    ids: Vec<u64>,
    maxlen: usize,
}

fn main() {
    run_check("C17", Level::ModelChecking, |ctx| {
        // names the tenant registry accepts
        let accepted: Vec<&'static str> = NAMES
            .iter()
            .copied()
            .filter(|n| {
                let tm = TenantManager::new();
                *n == "default" && tm.is_tenant_enabled("default") || tm.create_tenant(n.to_string(), "x".into(), None).is_ok()
            })
            .collect();
        println!("tenant names accepted by create_tenant: {:?} of {:?}", accepted, NAMES);
        if let Some(p) = ctx.replay.clone() {
            replay(ctx, &p);
            let _ = std::fs::remove_dir_all(root());
            return;
        }
        let quick = ctx.quick();
        let mut plans: Vec<Plan> = vec![];
        let n = accepted.len();
        for i in 0..n {
            for j in i + 1..n {
                plans.push(Plan { names: vec![accepted[i], accepted[j]], ids: if quick { vec![1] } else { vec![1, 2] }, maxlen: 3 });
                for k in j + 1..n {
                    plans.push(Plan { names: vec![accepted[i], accepted[j], accepted[k]], ids: vec![1], maxlen: if quick { 2 } else { 3 } });
                }
            }
        }
        let cardinality: u64 = plans
            .iter()
            .map(|p| {
                let a = (p.names.len() * 4 * p.ids.len()) as u64;
                (0..=p.maxlen as u32).map(|l| a.pow(l)).sum::<u64>()
            })
            .sum();
        println!("{} tenant tuples ({} pairs, {} triples), {} operation sequences", plans.len(), plans.iter().filter(|p| p.names.len() == 2).count(), plans.iter().filter(|p| p.names.len() == 3).count(), cardinality);
        let cases = AtomicU64::new(0);
        let transitions = AtomicU64::new(0);
        let states: Mutex<HashSet<(usize, Vec<TenantRef>)>> = Mutex::new(HashSet::new());
        let viols: Mutex<Vec<(usize, Vec<Op>, Vio)>> = Mutex::new(vec![]);
        let machinery: Mutex<Option<String>> = Mutex::new(None);
        plans.par_iter().enumerate().for_each(|(pi, p)| {
            let s = match open_subject(&p.names) {
                Ok(s) => s,
                Err(e) => {
                    *machinery.lock().unwrap() = Some(e);
                    return;
                }
            };
            let alphabet: Vec<Op> = (0..p.names.len()).flat_map(|t| p.ids.iter().flat_map(move |&id| KINDS.iter().map(move |&kind| Op { t, kind, id }))).collect();
            let mut local_states: HashSet<Vec<TenantRef>> = HashSet::new();
            let mut local_v = vec![];
            for seq in odometer::sequences_upto(alphabet.len(), p.maxlen) {
                let ops: Vec<Op> = seq.iter().map(|&i| alphabet[i]).collect();
                let (vio, model) = run_case(&s, &p.names, &p.ids, &ops);
                cases.fetch_add(1, Ordering::Relaxed);
                transitions.fetch_add(ops.len() as u64, Ordering::Relaxed);
                local_states.insert(model);
                // keep only the first case per signature per tuple (sequences come simplest first)
                for v in vio {
                    if !local_v.iter().any(|(_, x): &(Vec<Op>, Vio)| x.0 == v.0) {
                        local_v.push((ops.clone(), v));
                    } else {
                        local_v.push((vec![], (v.0, String::new())));
                    }
                }
                if let Err(e) = wipe(&s, &p.names, &p.ids) {
                    *machinery.lock().unwrap() = Some(e);
                    return;
                }
            }
            let mut st = states.lock().unwrap();
            for m in local_states {
                st.insert((pi, m));
            }
            let mut vv = viols.lock().unwrap();
            for (ops, v) in local_v {
                vv.push((pi, ops, v));
            }
        });
        if let Some(e) = machinery.lock().unwrap().clone() {
            ctx.machinery(&e);
        }
        // report violations deterministically: by tuple index, then in discovery order; witnesses first
        let mut vv = viols.into_inner().unwrap();
        vv.sort_by_key(|(pi, ops, _)| (ops.is_empty(), *pi));
        for (pi, ops, (sig, msg)) in vv {
            ctx.violation(&sig, msg, witness(&plans[pi].names, &ops));
        }
        let ncases = cases.load(Ordering::Relaxed);
        ctx.cov("states", states.lock().unwrap().len() as u64);
        ctx.cov("transitions", transitions.load(Ordering::Relaxed));
        ctx.cov("traces_validated_against_impl", ncases);
        ctx.cov("sequences", ncases);
        ctx.cov("generator_cardinality", cardinality);
        ctx.cov("exhaustive", ncases == cardinality);
        ctx.cov("cap_hit", false);
        ctx.cov("max_depth", 3u64);
        ctx.cov("tenant_names", json!(accepted));
        ctx.cov("tenant_tuples", plans.len() as u64);
        ctx.cov("alphabet", "per tenant of the tuple: put_node, delete_node, put_edge, delete_edge on colliding ids (quick: id 1; thorough pairs: ids 1,2); pairs: all sequences <= 3; triples: <= 2 (quick) / <= 3 (thorough)");
        ctx.sample(witness(&plans[0].names, &[Op { t: 0, kind: Kind::PutNode, id: 1 }]));
        if let Some(p) = plans.iter().find(|p| p.names.len() == 3) {
            ctx.sample(witness(&p.names, &[Op { t: 2, kind: Kind::PutEdge, id: 1 }, Op { t: 0, kind: Kind::PutNode, id: 1 }]));
        }
        ctx.assume("one RocksDB instance per tenant tuple; between operation sequences every key the alphabet can write is deleted and the store is proved empty (all gets None, tenant listing empty) before the next sequence");
        ctx.assume("a tenant holding only relationships may or may not appear in list_persisted_tenants (it reads node keys); a tenant with nodes must, a name with nothing stored must not");
        ctx.assume("records carry their owner (label T<i> / type E<i>, property owner=i) and the stamp of the writing operation, so foreign, stale and resurrected records are told apart");
        println!("sequences run: {ncases}");
        let _ = std::fs::remove_dir_all(root());
    });
}

fn replay(ctx: &Ctx, p: &std::path::Path) {
    let doc: Value = serde_json::from_str(&std::fs::read_to_string(p).expect("read replay")).expect("json");
    let w = &doc["witness"];
    let names_owned: Vec<String> = w["tenants"].as_array().unwrap().iter().map(|s| s.as_str().unwrap().to_string()).collect();
    let names: Vec<&str> = names_owned.iter().map(|s| s.as_str()).collect();
    let ops: Vec<Op> = w["ops"]
        .as_array()
        .unwrap()
        .iter()
        .map(|o| Op {
            t: o[0].as_u64().unwrap() as usize,
            kind: *KINDS.iter().find(|k| format!("{:?}", k) == o[1].as_str().unwrap()).unwrap(),
            id: o[2].as_u64().unwrap(),
        })
        .collect();
    let s = open_subject(&names).unwrap_or_else(|e| ctx.machinery(&e));
    let ids: Vec<u64> = vec![1, 2];
    let mut model: Vec<TenantRef> = vec![TenantRef::default(); names.len()];
    let mut vio = vec![];
    for (i, op) in ops.iter().enumerate() {
        apply_op(&s, &names, op, i as i64 + 1, &mut model, &mut vio);
        println!("step {i}: {:?} tenant {:?} id {}", op.kind, names[op.t], op.id);
    }
    for (ti, t) in names.iter().enumerate() {
        let sn: Vec<_> = s.pm.storage().scan_nodes(t).map(|v| v.iter().map(|n| { let o = node_obs(n); format!("node {} of {:?}", o.0, names.get(o.1 as usize)) }).collect()).unwrap_or_default();
        let se: Vec<_> = s.pm.storage().scan_edges(t).map(|v| v.iter().map(|n| { let o = edge_obs(n); format!("edge {} of {:?}", o.0, names.get(o.1 as usize)) }).collect()).unwrap_or_default();
        println!("tenant {t:?}: stored nodes {:?} edges {:?}; scan_nodes -> {:?}; scan_edges -> {:?}", model[ti].nodes.keys().collect::<Vec<_>>(), model[ti].edges.keys().collect::<Vec<_>>(), sn, se);
    }
    println!("list_persisted_tenants -> {:?}", s.pm.list_persisted_tenants().map_err(|e| e.to_string()));
    observe(&s, &names, &ids, &model, &mut vio, true);
    for (sig, msg) in vio {
        println!("  MISMATCH [{sig}] {msg}");
        ctx.violation(&sig, msg, w.clone());
    }
}
