//! C03 — the parsed-query cache never changes what a query means.
//!
//! Explicit-state exploration (hx) of sequences of query strings through one `QueryEngine`
//! (execute / execute_mut) against `parse_query` + a fresh executor on an identically built store.
//! Alphabet: families of near-duplicate strings (whitespace runs / tabs / newlines inside and outside
//! single- and double-quoted literals, escaped quotes, `//` and `/* */` comments, keyword and identifier
//! case, leading/trailing whitespace, write statements with literals, failing strings).
//! Quick: all ordered pairs; thorough: all ordered triples; cache capacities {1, 2, 1024}.
//! After every step: same Ok rows (columns exact, rows as a bag of normalised values) or same Err class,
//! and the two stores hold the same graph.
//! The cache content is not observable, so no two histories are merged: a state is a history.
use samyama::graph::{GraphStore, PropertyValue};
use samyama::query::{parse_query, MutQueryExecutor, QueryEngine, QueryExecutor, RecordBatch, Value as QV};
use serde_json::{json, Value};
use svmc::engine::ctx::guarded;
use svmc::engine::hx;
use svmc::{run_check, Ctx, Level};

#[derive(Clone, Debug)]
struct Q {
    text: &'static str,
    write: bool,
}

fn alphabet() -> Vec<Q> {
    let r = |t: &'static str| Q { text: t, write: false };
    let w = |t: &'static str| Q { text: t, write: true };
    vec![
        // whitespace inside single-quoted literals
        r("RETURN 'a b'"),
        r("RETURN 'a  b'"),
        r("RETURN 'a\tb'"),
        r("RETURN 'a\nb'"),
        r("RETURN  'a b'"),
        r(" RETURN 'a b' "),
        r("RETURN\n'a b'"),
        // double-quoted, escaped quotes
        r("RETURN \"a b\""),
        r("RETURN \"a  b\""),
        r("RETURN 'a\\' b'"),
        r("RETURN 'a\\'  b'"),
        r("RETURN \"a'  b\""),
        r("RETURN \"a' b\""),
        // a literal that ends in an escaped backslash, followed by a second literal: a scanner that
        // mis-tracks `\\` leaves the first literal "open" and normalises inside the second one
        // (seeded change C03)
        r("RETURN 'C:\\\\' AS d, 'a b' AS v"),
        r("RETURN 'C:\\\\' AS d, 'a  b' AS v"),
        r("RETURN \"C:\\\\\" AS d, \"a b\" AS v"),
        r("RETURN \"C:\\\\\" AS d, \"a  b\" AS v"),
        r("RETURN 'x\\\\\\'' AS d, 'a b' AS v"),
        r("RETURN 'x\\\\\\'' AS d, 'a  b' AS v"),
        // literal that looks like a comment
        r("RETURN '// a  b'"),
        r("RETURN '// a b'"),
        // comments
        r("MATCH (n:P) RETURN n.v // c"),
        r("MATCH (n:P) // c\nRETURN n.v"),
        r("MATCH (n:P) // c RETURN n.v"),
        r("MATCH (n:P) /* c */ RETURN n.v"),
        r("MATCH (n:P) /*  c  */ RETURN n.v"),
        r("MATCH (n:P) RETURN n.v"),
        r("MATCH  (n:P)\n\tRETURN  n.v"),
        // keyword / identifier / label case
        r("match (n:P) return n.v"),
        r("MATCH (N:P) RETURN N.v"),
        r("MATCH (n:p) RETURN n.v"),
        // literals in predicates
        r("MATCH (n:P) WHERE n.v = 'x y' RETURN count(n)"),
        r("MATCH (n:P) WHERE n.v = 'x  y' RETURN count(n)"),
        r("MATCH (n:P)  WHERE n.v = 'x y'  RETURN count(n)"),
        // whitespace inside an unaliased expression (column header text)
        r("RETURN 1 + 2"),
        r("RETURN 1  +  2"),
        r("RETURN 1 +\n2"),
        r("RETURN 1 + 2 AS s"),
        r("RETURN 1  +  2  AS  s"),
        // multi-word operators and clause keywords with whitespace runs BETWEEN their words: the cache
        // key collapses the run, so both spellings share one cached AST, and must mean the same
        r("MATCH (n:P) WHERE n.v IS NOT NULL RETURN count(n)"),
        r("MATCH (n:P) WHERE n.v IS  NOT NULL RETURN count(n)"),
        r("MATCH (n:P) WHERE n.v IS\nNOT\tNULL RETURN count(n)"),
        r("MATCH (n:P) WHERE n.v IS NOT  NULL RETURN count(n)"),
        r("MATCH (n:P) WHERE n.v IS NULL RETURN count(n)"),
        r("MATCH (n:P) WHERE n.v IS  NULL RETURN count(n)"),
        r("MATCH (n:P) WHERE n.v STARTS WITH 'x' RETURN count(n)"),
        r("MATCH (n:P) WHERE n.v STARTS  WITH 'x' RETURN count(n)"),
        r("MATCH (n:P) WHERE n.v ENDS\n WITH 'y' RETURN count(n)"),
        r("MATCH (n:P) WHERE NOT  n.v = 'x y' RETURN count(n)"),
        r("MATCH (n:P) WHERE NOT n.v = 'x y' RETURN count(n)"),
        r("MATCH (n:P) RETURN n.v ORDER  BY n.v DESC LIMIT 1"),
        r("MATCH (n:P) RETURN n.v ORDER BY n.v  DESC LIMIT 1"),
        r("MATCH (n:P) RETURN n.v ORDER BY n.v LIMIT 1"),
        r("OPTIONAL  MATCH (n:Q) RETURN count(n)"),
        r("OPTIONAL MATCH (n:Q) RETURN count(n)"),
        r("MATCH (n:P) RETURN DISTINCT  n.v"),
        r("MATCH (n:P) WHERE n.v IN  ['x y'] RETURN count(n)"),
        r("MATCH (n:P) WHERE n.v IN ['x y'] RETURN count(n)"),
        // backtick-quoted names: whitespace inside them is part of the name
        r("RETURN 1 AS `a b`"),
        r("RETURN 1 AS `a  b`"),
        r("MATCH (n:P) RETURN n.`v w` AS x"),
        r("MATCH (n:P) RETURN n.`v  w` AS x"),
        // writes
        w("CREATE (n:W {s: 'a b'})"),
        w("CREATE (n:W {s: 'a  b'})"),
        w("CREATE  (n:W  {s: 'a b'})"),
        w("MATCH (n:P) SET n.t = 'q  r'"),
        w("MATCH (n:P) SET n.t = 'q r'"),
        r("MATCH (n:W) RETURN n.s"),
        r("MATCH (n:P) RETURN n.t"),
        // failing strings
        r("RETURN 'a b"),
        r("RETURN  'a b"),
    ]
}

fn fresh_store() -> GraphStore {
    let mut g = GraphStore::new();
    for v in ["x y", "x  y"] {
        let id = g.create_node("P");
        if let Some(n) = g.get_node_mut(id) {
            n.set_property("v", v);
            n.set_property("v w", "one space");
            n.set_property("v  w", "two spaces");
        }
    }
    g
}

// ---------------------------------------------------------------------------------------------
// normalisation of results (DESIGN 1.3)

fn pv(v: &PropertyValue) -> String {
    match v {
        PropertyValue::String(s) => format!("S{s:?}"),
        PropertyValue::Integer(i) => format!("I{i}"),
        PropertyValue::Float(f) => format!("F{:016x}", f.to_bits()),
        PropertyValue::Boolean(b) => format!("B{b}"),
        PropertyValue::Null => "null".into(),
        PropertyValue::Array(a) => format!("[{}]", a.iter().map(pv).collect::<Vec<_>>().join(",")),
        PropertyValue::Map(m) => {
            let mut e: Vec<String> = m.iter().map(|(k, v)| format!("{k:?}:{}", pv(v))).collect();
            e.sort();
            format!("{{{}}}", e.join(","))
        }
        other => format!("O{other:?}"),
    }
}

fn qv(v: &QV) -> String {
    match v {
        QV::Null => "null".into(),
        QV::Property(p) => pv(p),
        QV::Node(id, _) | QV::NodeRef(id) => format!("N{}", id.as_u64()),
        QV::Edge(id, _) => format!("E{}", id.as_u64()),
        QV::EdgeRef(id, _, _, _) => format!("E{}", id.as_u64()),
        QV::Path { nodes, edges } => format!("P{:?}/{:?}", nodes.iter().map(|n| n.as_u64()).collect::<Vec<_>>(), edges.iter().map(|e| e.as_u64()).collect::<Vec<_>>()),
        QV::List(l) => format!("[{}]", l.iter().map(qv).collect::<Vec<_>>().join(",")),
        QV::Map(m) => format!("{{{}}}", m.iter().map(|(k, v)| format!("{k:?}:{}", qv(v))).collect::<Vec<_>>().join(",")),
    }
}

#[derive(Debug, Clone, PartialEq)]
enum Out {
    Rows { columns: Vec<String>, rows: Vec<Vec<String>> },
    Err(String),
    Panic(String),
}

fn norm(r: Result<Result<RecordBatch, String>, String>) -> Out {
    match r {
        Err(p) => Out::Panic(p),
        Ok(Err(e)) => Out::Err(err_class(&e)),
        Ok(Ok(b)) => {
            let mut rows: Vec<Vec<String>> = b.records.iter().map(|rec| b.columns.iter().map(|c| rec.get(c).map(qv).unwrap_or_else(|| "missing".into())).collect()).collect();
            rows.sort();
            Out::Rows { columns: b.columns.clone(), rows }
        }
    }
}

/// error class: the text up to the first ':' (Parse error / Semantic error / Runtime error / ...)
fn err_class(e: &str) -> String {
    e.split(':').next().unwrap_or("").trim().to_string()
}

fn dump(g: &GraphStore) -> Vec<String> {
    let mut out: Vec<String> = g
        .all_nodes()
        .iter()
        .map(|n| {
            let mut labels: Vec<String> = n.labels.iter().map(|l| l.as_str().to_string()).collect();
            labels.sort();
            let mut props: Vec<String> = n.properties.iter().map(|(k, v)| format!("{k}={}", pv(v))).collect();
            props.sort();
            format!("n{} {:?} {:?}", n.id.as_u64(), labels, props)
        })
        .collect();
    out.sort();
    out.push(format!("edges={}", g.edge_count()));
    out
}

// ---------------------------------------------------------------------------------------------
// where do two colliding strings differ?

#[derive(Debug, Clone, PartialEq)]
enum Seg {
    Code(String),
    Quote(String),
    Comment(String),
}

/// Lexical segments per the grammar: '..' and ".." with backslash escapes, /* */ and // comments.
fn segments(s: &str) -> Vec<Seg> {
    let b: Vec<char> = s.chars().collect();
    let mut out = vec![];
    let mut cur = String::new();
    let mut i = 0;
    while i < b.len() {
        let c = b[i];
        if c == '\'' || c == '"' {
            if !cur.is_empty() {
                out.push(Seg::Code(std::mem::take(&mut cur)));
            }
            let mut q = String::new();
            q.push(c);
            i += 1;
            while i < b.len() {
                q.push(b[i]);
                if b[i] == '\\' && i + 1 < b.len() {
                    q.push(b[i + 1]);
                    i += 2;
                    continue;
                }
                if b[i] == c {
                    i += 1;
                    break;
                }
                i += 1;
            }
            out.push(Seg::Quote(q));
            continue;
        }
        if c == '/' && i + 1 < b.len() && b[i + 1] == '/' {
            if !cur.is_empty() {
                out.push(Seg::Code(std::mem::take(&mut cur)));
            }
            let mut q = String::new();
            while i < b.len() && b[i] != '\n' {
                q.push(b[i]);
                i += 1;
            }
            out.push(Seg::Comment(q));
            continue;
        }
        if c == '/' && i + 1 < b.len() && b[i + 1] == '*' {
            if !cur.is_empty() {
                out.push(Seg::Code(std::mem::take(&mut cur)));
            }
            let mut q = String::new();
            while i < b.len() {
                q.push(b[i]);
                if b[i] == '/' && q.len() >= 4 && q.ends_with("*/") {
                    i += 1;
                    break;
                }
                i += 1;
            }
            out.push(Seg::Comment(q));
            continue;
        }
        cur.push(c);
        i += 1;
    }
    if !cur.is_empty() {
        out.push(Seg::Code(cur));
    }
    out
}

fn collapsed(s: &str) -> String {
    s.split_whitespace().collect::<Vec<_>>().join(" ")
}

/// Region of a (history, current string) pair: how does the current string relate to an earlier, different
/// string with the same whitespace-collapsed text?
fn region(hist: &[&str], cur: &str) -> &'static str {
    let mut best = "no-colliding-predecessor";
    for h in hist {
        if *h != cur && collapsed(h) == collapsed(cur) {
            let (a, b) = (segments(h), segments(cur));
            let quotes = |v: &[Seg]| v.iter().filter_map(|s| if let Seg::Quote(q) = s { Some(q.clone()) } else { None }).collect::<Vec<_>>();
            let comments = |v: &[Seg]| v.iter().filter_map(|s| if let Seg::Comment(q) = s { Some(q.clone()) } else { None }).collect::<Vec<_>>();
            let r = if quotes(&a) != quotes(&b) {
                "ws-in-literal"
            } else if comments(&a) != comments(&b) {
                "ws-in-comment"
            } else {
                "ws-outside-literals"
            };
            // most specific first
            let rank = |x: &str| match x {
                "ws-in-literal" => 3,
                "ws-in-comment" => 2,
                "ws-outside-literals" => 1,
                _ => 0,
            };
            if rank(r) > rank(best) {
                best = r;
            }
        }
    }
    best
}

// ---------------------------------------------------------------------------------------------
// hx model

struct M {
    alpha: Vec<Q>,
    cap: usize,
}

struct St {
    engine: QueryEngine,
    g_impl: GraphStore,
    g_ref: GraphStore,
    hist: Vec<usize>,
}

impl hx::Model for M {
    type Op = usize;
    type State = St;
    type Key = Vec<usize>;
    fn init(&self) -> St {
        St { engine: QueryEngine::with_capacity(self.cap), g_impl: fresh_store(), g_ref: fresh_store(), hist: vec![] }
    }
    fn ops(&self, _st: &St) -> Vec<usize> {
        (0..self.alpha.len()).collect()
    }
    fn apply(&self, st: &mut St, op: &usize, check: bool) -> hx::Step {
        let q = &self.alpha[*op];
        let got = if q.write {
            norm(guarded(|| st.engine.execute_mut(q.text, &mut st.g_impl, "default").map_err(|e| e.to_string())))
        } else {
            norm(guarded(|| st.engine.execute(q.text, &st.g_impl).map_err(|e| e.to_string())))
        };
        let want = if q.write {
            norm(guarded(|| {
                let ast = parse_query(q.text).map_err(|e| e.to_string())?;
                MutQueryExecutor::new(&mut st.g_ref, "default".to_string()).execute(&ast).map_err(|e| e.to_string())
            }))
        } else {
            norm(guarded(|| {
                let ast = parse_query(q.text).map_err(|e| e.to_string())?;
                QueryExecutor::new(&st.g_ref).execute(&ast).map_err(|e| e.to_string())
            }))
        };
        let mut step = hx::Step::ok(match &got {
            Out::Rows { rows, .. } => format!("rows{}", rows.len().min(3)),
            Out::Err(c) => format!("err:{c}"),
            Out::Panic(_) => "panic".into(),
        });
        if check {
            let texts: Vec<&str> = st.hist.iter().map(|&i| self.alpha[i].text).collect();
            let reg = region(&texts, q.text);
            let sym = match (&got, &want) {
                (a, b) if a == b => None,
                (Out::Panic(_), _) => Some("panic"),
                (Out::Rows { columns: c1, rows: r1 }, Out::Rows { columns: c2, rows: r2 }) => {
                    if r1 != r2 {
                        Some("rows-differ")
                    } else if c1 != c2 {
                        Some("columns-differ")
                    } else {
                        None
                    }
                }
                (Out::Rows { .. }, Out::Err(_)) => Some("ok-instead-of-error"),
                (Out::Err(_), Out::Rows { .. }) => Some("error-instead-of-ok"),
                _ => Some("error-class-differs"),
            };
            if let Some(sym) = sym {
                step.violations.push((format!("{reg}:{sym}"), format!("after {:?} the engine answers {:?} with {}; parsing that exact string afresh gives {}", texts, q.text, show(&got), show(&want))));
            } else if dump(&st.g_impl) != dump(&st.g_ref) {
                step.violations.push((format!("{reg}:store-differs"), format!("after {:?} then {:?} the engine's store holds {:?}; executing the exact strings afresh gives {:?}", texts, q.text, dump(&st.g_impl), dump(&st.g_ref))));
            }
        }
        st.hist.push(*op);
        step
    }
    fn key(&self, st: &St) -> Vec<usize> {
        st.hist.clone()
    }
    fn op_name(&self, op: &usize) -> String {
        format!("q{op}")
    }
    fn op_json(&self, op: &usize) -> Value {
        json!(self.alpha[*op].text)
    }
}

fn show(o: &Out) -> String {
    match o {
        Out::Rows { columns, rows } => format!("columns {columns:?} rows {rows:?}"),
        Out::Err(c) => format!("Err({c})"),
        Out::Panic(p) => format!("panic({p})"),
    }
}

fn main() {
    run_check("C03", Level::ModelChecking, |ctx| {
        let alpha = alphabet();
        if let Some(p) = ctx.replay.clone() {
            replay(ctx, &alpha, &p);
            return;
        }
        let depth = if ctx.quick() { 2 } else { 3 };
        let caps = [1024usize, 1, 2];
        let mut total = hx::Stats::default();
        let mut per_cap = vec![];
        for cap in caps {
            let m = M { alpha: alpha.clone(), cap };
            let stats = hx::explore(&m, depth, 50_000_000, |v| {
                let texts: Vec<&str> = v.history.iter().map(|&i| alpha[i].text).collect();
                ctx.violation(&v.sig, v.msg, json!({"capacity": cap, "history": texts, "history_ops": v.history}));
            });
            per_cap.push(json!({"capacity": cap, "states": stats.states, "transitions": stats.transitions, "pruned_after_violation": stats.pruned_after_violation, "max_depth": stats.max_depth}));
            total.states += stats.states;
            total.transitions += stats.transitions;
            total.pruned_after_violation += stats.pruned_after_violation;
            total.max_depth = total.max_depth.max(stats.max_depth);
            total.cap_hit |= stats.cap_hit;
            if total.per_depth_states.len() < stats.per_depth_states.len() {
                total.per_depth_states.resize(stats.per_depth_states.len(), 0);
            }
            for (i, n) in stats.per_depth_states.iter().enumerate() {
                total.per_depth_states[i] += n;
            }
            for (k, v) in stats.outcomes_per_op {
                let e = total.outcomes_per_op.entry(k).or_default();
                for (o, n) in v {
                    *e.entry(o).or_default() += n;
                }
            }
            if total.samples.len() < 3 {
                total.samples.extend(stats.samples.into_iter().take(1));
            }
        }
        hx::report(ctx, &total, &format!("{} query strings (near-duplicate families), each through QueryEngine::execute or execute_mut; cache capacities 1024, 1, 2", alpha.len()));
        ctx.cov("per_capacity", json!(per_cap));
        ctx.cov("alphabet_strings", json!(alpha.iter().map(|q| q.text).collect::<Vec<_>>()));
        ctx.assume("the cache content is private, so histories are never merged: states = histories (1 + n + n^2 [+ n^3] per capacity, minus what lies behind a violating transition)");
        ctx.assume("rows are compared as a bag of normalised values, column names exactly; errors by class (text before the first ':')");
        ctx.assume("the grammar has no back-ticked identifiers, so identifier quoting contributes only failing strings");
    });
}

fn replay(ctx: &Ctx, alpha: &[Q], p: &std::path::Path) {
    let doc: Value = serde_json::from_str(&std::fs::read_to_string(p).unwrap_or_else(|e| ctx.machinery(&format!("read replay: {e}")))).unwrap_or_else(|e| ctx.machinery(&format!("replay json: {e}")));
    let w = &doc["witness"];
    let cap = w["capacity"].as_u64().unwrap_or(1024) as usize;
    let hist: Vec<String> = w["history"].as_array().unwrap().iter().map(|x| x.as_str().unwrap().to_string()).collect();
    let m = M { alpha: alpha.to_vec(), cap };
    use hx::Model;
    let mut st = m.init();
    for (i, t) in hist.iter().enumerate() {
        let op = alpha.iter().position(|q| q.text == t).unwrap_or_else(|| ctx.machinery(&format!("replay: string {t:?} is not in the alphabet")));
        let step = m.apply(&mut st, &op, true);
        println!("step {i}: {t:?} -> {}", step.outcome);
        for (sig, msg) in step.violations {
            println!("  MISMATCH [{sig}] {msg}");
            ctx.violation(&sig, msg, json!({"capacity": cap, "history": hist[..=i]}));
        }
    }
}
