//! C18 — tenant quotas hold under every interleaving of writers.
//!
//! `sched`: a controlled scheduler for real OS threads over the real
//! `PersistenceManager`. The repository's hook points (cfg
//! samyama_ai_samyama_graph_verif) call back into this binary; a driver thread
//! parks at every point until the scheduler hands it the baton, so exactly one
//! driver thread runs between two points. All choice sequences ("which thread
//! runs next") are enumerated by stateless DFS with replay, for the preemption
//! bounds 0,1,2,3 and then unbounded.
use samyama::graph::{Edge, EdgeId, Label, Node, NodeId};
use samyama::persistence::{PersistenceError, PersistenceManager, ResourceQuotas, TenantError, Wal, WalEntry};
use serde_json::{json, Value};
use std::cell::RefCell;
use std::collections::{BTreeMap, BTreeSet};
use std::path::PathBuf;
use std::sync::atomic::{AtomicU64, Ordering};
use std::sync::{Arc, Condvar, Mutex};
use std::time::{Duration, Instant};
use svmc::engine::ctx::guarded;
use svmc::{run_check, Ctx, Level};

// ===========================================================================
// sched engine
// ===========================================================================

#[derive(Clone, Copy, PartialEq, Eq, Debug)]
enum Status {
    Running,
    AtPoint(&'static str),
    Done,
}

struct ExecSt {
    status: Vec<Status>,
    grant: Option<usize>,
    clock: u64,
    /// labels emitted by the thread's current operation (whitelist check)
    cur_labels: Vec<Vec<&'static str>>,
    oplog: Vec<OpRecord>,
}

struct Exec {
    st: Mutex<ExecSt>,
    cv: Condvar,
}

thread_local! {
    /// (execution, driver-thread index) of the current OS thread, if it is a driver thread.
    static CUR: RefCell<Option<(Arc<Exec>, usize)>> = RefCell::new(None);
}

fn hook(label: &'static str, _arg: u64) {
    let cur = CUR.with(|c| c.borrow().clone());
    if let Some((ex, t)) = cur {
        ex.at_point(t, label);
    }
}

impl Exec {
    fn new(n: usize) -> Arc<Exec> {
        Arc::new(Exec {
            st: Mutex::new(ExecSt { status: vec![Status::Running; n], grant: None, clock: 0, cur_labels: vec![vec![]; n], oplog: vec![] }),
            cv: Condvar::new(),
        })
    }
    /// Called on a driver thread: park until the scheduler grants this thread the baton.
    fn at_point(&self, t: usize, label: &'static str) {
        let mut g = self.st.lock().unwrap();
        g.status[t] = Status::AtPoint(label);
        if label != "op.begin" {
            g.cur_labels[t].push(label);
        }
        self.cv.notify_all();
        while g.grant != Some(t) {
            g = self.cv.wait(g).unwrap();
        }
        g.grant = None;
        g.status[t] = Status::Running;
    }
    fn begin_op(&self, t: usize) -> u64 {
        let mut g = self.st.lock().unwrap();
        g.cur_labels[t].clear();
        g.clock += 1;
        g.clock
    }
    fn end_op(&self, t: usize, idx: usize, op: &Op, res: OpRes, begin: u64) {
        let mut g = self.st.lock().unwrap();
        g.clock += 1;
        let end = g.clock;
        let labels = std::mem::take(&mut g.cur_labels[t]);
        g.oplog.push(OpRecord { thread: t, idx, op: op.clone(), res, begin, end, labels });
    }
    fn done(&self, t: usize) {
        let mut g = self.st.lock().unwrap();
        g.status[t] = Status::Done;
        self.cv.notify_all();
    }
    /// Wait until no thread is Running, or until `timeout` has passed. Returns the statuses.
    fn wait_settled(&self, timeout: Duration) -> Vec<Status> {
        let deadline = Instant::now() + timeout;
        let mut g = self.st.lock().unwrap();
        loop {
            if !g.status.iter().any(|s| *s == Status::Running) {
                return g.status.clone();
            }
            let left = deadline.saturating_duration_since(Instant::now());
            if left.is_zero() {
                return g.status.clone();
            }
            let (ng, _) = self.cv.wait_timeout(g, left).unwrap();
            g = ng;
        }
    }
    /// Wait until thread `t` is parked at a point (or `timeout`).
    fn wait_at_point(&self, t: usize, timeout: Duration) -> Status {
        let deadline = Instant::now() + timeout;
        let mut g = self.st.lock().unwrap();
        loop {
            if g.status[t] != Status::Running {
                return g.status[t];
            }
            let left = deadline.saturating_duration_since(Instant::now());
            if left.is_zero() {
                return g.status[t];
            }
            let (ng, _) = self.cv.wait_timeout(g, left).unwrap();
            g = ng;
        }
    }
    /// Wait until any status differs from `old` (or `timeout`).
    fn wait_change(&self, old: &[Status], timeout: Duration) -> Vec<Status> {
        let deadline = Instant::now() + timeout;
        let mut g = self.st.lock().unwrap();
        loop {
            if g.status != old {
                return g.status.clone();
            }
            let left = deadline.saturating_duration_since(Instant::now());
            if left.is_zero() {
                return g.status.clone();
            }
            let (ng, _) = self.cv.wait_timeout(g, left).unwrap();
            g = ng;
        }
    }
    fn grant(&self, t: usize) {
        let mut g = self.st.lock().unwrap();
        g.grant = Some(t);
        // the scheduler considers the thread running from now on
        g.status[t] = Status::Running;
        self.cv.notify_all();
    }
}

// ===========================================================================
// drivers
// ===========================================================================

#[derive(Clone, Debug, PartialEq, Eq, Hash, PartialOrd, Ord)]
enum Op {
    CreateNode(u64),
    /// executed only if this thread's CreateNode(id) was accepted (models the real caller)
    DeleteNode(u64),
    CreateEdge(u64),
    DeleteEdge(u64),
    Recover,
    /// toy subject (scheduler self-test): unlocked read-modify-write of a shared counter
    ToyRacy,
    /// toy subject: a Mutex held ACROSS a hook point (exercises the blocked-thread path)
    ToyLocked,
}

#[derive(Clone, Debug, PartialEq, Eq, Hash, PartialOrd, Ord)]
enum OpRes {
    Ok,
    /// refused with TenantError::QuotaExceeded
    Quota,
    Err(String),
    Panic(String),
    Skipped,
}
impl OpRes {
    fn short(&self) -> String {
        match self {
            OpRes::Ok => "ok".into(),
            OpRes::Quota => "quota".into(),
            OpRes::Err(e) => format!("err({e})"),
            OpRes::Panic(e) => format!("panic({e})"),
            OpRes::Skipped => "skipped".into(),
        }
    }
}

#[derive(Clone, Debug)]
struct OpRecord {
    thread: usize,
    idx: usize,
    op: Op,
    res: OpRes,
    begin: u64,
    end: u64,
    labels: Vec<&'static str>,
}

#[derive(Clone, Debug)]
struct Driver {
    name: String,
    max_nodes: Option<usize>,
    max_edges: Option<usize>,
    threads: Vec<Vec<Op>>,
    /// judge `get_usage == persisted` at quiescence (false only for the driver that runs
    /// `recover` concurrently with a writer, where only reconciliation is judged)
    judge_usage_at_quiescence: bool,
    toy: bool,
}

static DIR_SEQ: AtomicU64 = AtomicU64::new(0);
static TENANT_SEQ: AtomicU64 = AtomicU64::new(0);
/// executions served by one PersistenceManager before it is closed and its directory removed
const POOL_USES: u64 = 400;

/// A real PersistenceManager over a real directory. Opening one costs 50-600 ms on this box, a
/// schedule costs well under a millisecond, so managers are pooled: every execution gets a FRESH
/// TENANT (fixed-width id, so no tenant id is a prefix of another) on a pooled manager. Every
/// reported violation is re-executed twice on a brand-new manager before it is believed.
struct Pooled {
    pm: PersistenceManager,
    dir: PathBuf,
    uses: AtomicU64,
}
static POOL: Mutex<Vec<Arc<Pooled>>> = Mutex::new(Vec::new());
/// first operation whose label sequence was not whitelisted (see `allowed_sequences`)
static HOOK_DRIFT: Mutex<Option<String>> = Mutex::new(None);

enum World {
    Real { p: Arc<Pooled>, tenant: String, fresh: bool },
    Toy { counter: AtomicU64, locked: Mutex<u64> },
}

/// Data directories: tmpfs when there is one (DESIGN C18: "a real PersistenceManager in a tmpfs
/// directory"; opening RocksDB costs ~50 ms there and 0.3-1 s on the shared disk under load, and
/// nothing judged here depends on fsync), else /verif/target/tmp. `C18_NO_SHM=1` forces the disk.
fn tmp_root() -> PathBuf {
    let shm = PathBuf::from("/dev/shm");
    if std::env::var("C18_NO_SHM").is_err() && shm.is_dir() {
        let d = shm.join("verif-c18");
        if std::fs::create_dir_all(&d).is_ok() {
            return d;
        }
    }
    PathBuf::from("/verif/target/tmp")
}

fn open_pm() -> Result<Arc<Pooled>, String> {
    let dir = tmp_root().join(format!("c18-{}-{}", std::process::id(), DIR_SEQ.fetch_add(1, Ordering::SeqCst)));
    let _ = std::fs::remove_dir_all(&dir);
    std::fs::create_dir_all(&dir).map_err(|e| format!("mkdir {}: {e}", dir.display()))?;
    let pm = PersistenceManager::new(&dir).map_err(|e| format!("PersistenceManager::new: {e}"))?;
    Ok(Arc::new(Pooled { pm, dir, uses: AtomicU64::new(0) }))
}

fn close_pm(p: Arc<Pooled>) {
    if let Ok(p) = Arc::try_unwrap(p) {
        let Pooled { pm, dir, .. } = p;
        drop(pm);
        let _ = std::fs::remove_dir_all(&dir);
    }
}

/// Machinery failure: remove this process's data directories, then exit 2.
fn die(ctx: &Ctx, msg: &str) -> ! {
    cleanup();
    ctx.machinery(msg)
}

fn cleanup() {
    drain_pool();
    let prefix = format!("c18-{}-", std::process::id());
    if let Ok(rd) = std::fs::read_dir(tmp_root()) {
        for e in rd.flatten() {
            if e.file_name().to_string_lossy().starts_with(&prefix) {
                let _ = std::fs::remove_dir_all(e.path());
            }
        }
    }
    let _ = std::fs::remove_dir(PathBuf::from("/dev/shm/verif-c18")); // only if empty (no other run is using it)
}

fn drain_pool() {
    let v: Vec<Arc<Pooled>> = std::mem::take(&mut *POOL.lock().unwrap());
    for p in v {
        close_pm(p);
    }
}

impl World {
    fn new(d: &Driver, fresh: bool) -> Result<World, String> {
        if d.toy {
            return Ok(World::Toy { counter: AtomicU64::new(0), locked: Mutex::new(0) });
        }
        let pooled = if fresh { None } else { POOL.lock().unwrap().pop() };
        let p = match pooled {
            Some(p) => p,
            None => open_pm()?,
        };
        p.uses.fetch_add(1, Ordering::SeqCst);
        let tenant = format!("t{:09}", TENANT_SEQ.fetch_add(1, Ordering::SeqCst));
        let mut q = ResourceQuotas::unlimited();
        q.max_nodes = d.max_nodes;
        q.max_edges = d.max_edges;
        p.pm.tenants().create_tenant(tenant.clone(), "C18".to_string(), Some(q)).map_err(|e| format!("create_tenant: {e}"))?;
        Ok(World::Real { p, tenant, fresh })
    }
    /// Give the manager back (or close it). Not called after a deadlock (stuck threads hold it).
    fn release(self) {
        if let World::Real { p, tenant, fresh } = self {
            let _ = p.pm.tenants().delete_tenant(&tenant);
            if fresh || p.uses.load(Ordering::SeqCst) >= POOL_USES {
                close_pm(p);
            } else {
                POOL.lock().unwrap().push(p);
            }
        }
    }
    fn run(&self, op: &Op) -> OpRes {
        fn cls(r: Result<(), PersistenceError>) -> OpRes {
            match r {
                Ok(()) => OpRes::Ok,
                Err(PersistenceError::Tenant(TenantError::QuotaExceeded { .. })) => OpRes::Quota,
                Err(e) => OpRes::Err(e.to_string()),
            }
        }
        match self {
            World::Real { p, tenant, .. } => match op {
                Op::CreateNode(id) => cls(p.pm.persist_create_node(tenant, &Node::new(NodeId::new(*id), Label::new("N")))),
                Op::DeleteNode(id) => cls(p.pm.persist_delete_node(tenant, *id)),
                Op::CreateEdge(id) => cls(p.pm.persist_create_edge(tenant, &Edge::new(EdgeId::new(*id), NodeId::new(1), NodeId::new(2), "R"))),
                Op::DeleteEdge(id) => cls(p.pm.persist_delete_edge(tenant, *id)),
                Op::Recover => cls(p.pm.recover(tenant).map(|_| ())),
                _ => OpRes::Err("toy op on real world".into()),
            },
            World::Toy { counter, locked } => match op {
                Op::ToyRacy => {
                    samyama::verif_hooks::point("toy.enter", 0);
                    let v = counter.load(Ordering::SeqCst);
                    samyama::verif_hooks::point("toy.loaded", 0);
                    counter.store(v + 1, Ordering::SeqCst);
                    samyama::verif_hooks::point("toy.stored", 0);
                    OpRes::Ok
                }
                Op::ToyLocked => {
                    samyama::verif_hooks::point("toy.enter", 0);
                    {
                        let mut g = locked.lock().unwrap();
                        let v = *g;
                        samyama::verif_hooks::point("toy.locked", 0);
                        *g = v + 1;
                    }
                    samyama::verif_hooks::point("toy.unlocked", 0);
                    OpRes::Ok
                }
                _ => OpRes::Err("real op on toy world".into()),
            },
        }
    }
}
/// Full label sequences an operation may emit (pinned tree, and the tree with the proposed
/// atomic-reservation / set-usage repairs). Anything else = "hooks out of date" (exit 2).
fn allowed_sequences(op: &Op) -> Vec<Vec<&'static str>> {
    match op {
        Op::CreateNode(_) => vec![
            vec!["tm.check_quota.enter", "pm.create_node.after_quota", "pm.create_node.after_wal", "pm.create_node.after_storage", "tm.increment_usage.enter", "pm.create_node.after_usage"],
            vec!["tm.reserve_usage.enter", "pm.create_node.after_quota", "pm.create_node.after_wal", "pm.create_node.after_storage", "pm.create_node.after_usage"],
        ],
        Op::CreateEdge(_) => vec![
            vec!["tm.check_quota.enter", "pm.create_edge.after_quota", "pm.create_edge.after_wal", "pm.create_edge.after_storage", "tm.increment_usage.enter", "pm.create_edge.after_usage"],
            vec!["tm.reserve_usage.enter", "pm.create_edge.after_quota", "pm.create_edge.after_wal", "pm.create_edge.after_storage", "pm.create_edge.after_usage"],
        ],
        Op::DeleteNode(_) => vec![vec!["pm.delete_node.after_wal", "pm.delete_node.after_storage", "tm.decrement_usage.enter", "pm.delete_node.after_usage"]],
        Op::DeleteEdge(_) => vec![vec!["pm.delete_edge.after_wal", "pm.delete_edge.after_storage", "tm.decrement_usage.enter", "pm.delete_edge.after_usage"]],
        Op::Recover => vec![
            vec!["pm.recover.after_scan", "tm.increment_usage.enter", "pm.recover.after_nodes_usage", "tm.increment_usage.enter"],
            vec!["pm.recover.after_scan", "tm.set_usage.enter", "pm.recover.after_nodes_usage", "tm.set_usage.enter"],
        ],
        Op::ToyRacy => vec![vec!["toy.enter", "toy.loaded", "toy.stored"]],
        Op::ToyLocked => vec![vec!["toy.enter", "toy.locked", "toy.unlocked"]],
    }
}

fn labels_ok(rec: &OpRecord) -> bool {
    let allowed = allowed_sequences(&rec.op);
    match &rec.res {
        OpRes::Ok => allowed.iter().any(|a| *a == rec.labels),
        // a quota refusal is decided inside the first TenantManager call: exactly its entry point
        OpRes::Quota => allowed.iter().any(|a| rec.labels.len() == 1 && a[0] == rec.labels[0]),
        OpRes::Skipped => rec.labels.is_empty(),
        // failures midway / panics: not expected in this space; judged as violations, not as hook drift
        OpRes::Err(_) | OpRes::Panic(_) => true,
    }
}

fn driver_thread(ex: Arc<Exec>, t: usize, ops: Vec<Op>, world: Arc<World>) {
    CUR.with(|c| *c.borrow_mut() = Some((ex.clone(), t)));
    let mut created_ok: BTreeSet<Op> = BTreeSet::new();
    for (i, op) in ops.iter().enumerate() {
        let skip = match op {
            Op::DeleteNode(id) => !created_ok.contains(&Op::CreateNode(*id)),
            Op::DeleteEdge(id) => !created_ok.contains(&Op::CreateEdge(*id)),
            _ => false,
        };
        if skip {
            let b = ex.begin_op(t);
            ex.end_op(t, i, op, OpRes::Skipped, b);
            continue;
        }
        ex.at_point(t, "op.begin");
        let begin = ex.begin_op(t);
        let res = match guarded(|| world.run(op)) {
            Ok(r) => r,
            Err(p) => OpRes::Panic(p),
        };
        if res == OpRes::Ok {
            created_ok.insert(op.clone());
        }
        ex.end_op(t, i, op, res, begin);
    }
    CUR.with(|c| *c.borrow_mut() = None);
    ex.done(t);
}

// ===========================================================================
// one controlled execution
// ===========================================================================

#[derive(Clone, Debug, PartialEq, Eq)]
struct StepRec {
    tid: usize,
    label: &'static str,
    /// the granted thread did not reach its next point within the timeout (blocked on a lock)
    blocked: bool,
}

#[derive(Clone, Debug, PartialEq, Eq)]
struct Observation {
    /// (thread, op index, op, result)
    results: Vec<(usize, usize, Op, OpRes)>,
    nodes: Vec<u64>,
    edges: Vec<u64>,
    usage: (usize, usize),
    wal_created_nodes: Vec<u64>,
    wal_created_edges: Vec<u64>,
    /// usage after a first / second quiescent recover()
    usage_after_recover1: Option<(usize, usize)>,
    usage_after_recover2: Option<(usize, usize)>,
    toy_counter: Option<u64>,
    deadlock: bool,
}

struct ExecOut {
    steps: Vec<StepRec>,
    /// alternatives (decision index, thread, its label) within the bound, for decisions beyond the prefix
    children: Vec<Vec<(usize, &'static str)>>,
    preemptions: usize,
    obs: Observation,
    oplog: Vec<OpRecord>,
    blocked_grants: usize,
    prefix_len: usize,
}

struct SchedCfg {
    timeout: Duration,
}

fn execute(d: &Driver, prefix: &[(usize, &'static str)], bound: Option<usize>, cfg: &SchedCfg, fresh: bool) -> Result<ExecOut, String> {
    let n = d.threads.len();
    let world = Arc::new(World::new(d, fresh)?);
    let ex = Exec::new(n);
    let mut handles = vec![];
    for t in 0..n {
        let (ex2, w2, ops) = (ex.clone(), world.clone(), d.threads[t].clone());
        handles.push(std::thread::Builder::new().name(format!("c18-drv{t}")).spawn(move || driver_thread(ex2, t, ops, w2)).map_err(|e| format!("spawn: {e}"))?);
    }
    let mut steps: Vec<StepRec> = vec![];
    let mut children = vec![];
    let mut last: Option<usize> = None;
    let mut preempt = 0usize;
    let mut deadlock = false;
    let long = cfg.timeout * 10 + Duration::from_secs(2);
    loop {
        let mut st = ex.wait_settled(cfg.timeout);
        // the previously granted thread is still running: blocked on a lock held by a parked thread
        if let (Some(l), Some(s)) = (last, steps.last_mut()) {
            if st[l] == Status::Running {
                s.blocked = true;
            }
        }
        let mut enabled: Vec<usize> = (0..n).filter(|t| matches!(st[*t], Status::AtPoint(_))).collect();
        if enabled.is_empty() {
            if st.iter().all(|s| *s == Status::Done) {
                break;
            }
            // nobody is parked and somebody is still running: give it a long time before calling it a deadlock
            st = ex.wait_change(&st, long);
            enabled = (0..n).filter(|t| matches!(st[*t], Status::AtPoint(_))).collect();
            if enabled.is_empty() {
                if st.iter().all(|s| *s == Status::Done) {
                    break;
                }
                deadlock = true;
                break;
            }
        }
        let i = steps.len();
        let last_enabled = last.map(|l| enabled.contains(&l)).unwrap_or(false);
        let c = if i < prefix.len() {
            let (c, want_label) = prefix[i];
            if !enabled.contains(&c) {
                // tolerated only for a thread that was late leaving a lock: wait for it
                match ex.wait_at_point(c, long) {
                    Status::AtPoint(_) => {}
                    other => return Err(format!("replay divergence: at decision {i} thread {c} expected at '{want_label}' but is {other:?}")),
                }
                st = ex.wait_settled(Duration::from_millis(0));
            }
            match st[c] {
                Status::AtPoint(l) if l == want_label => {}
                other => return Err(format!("replay divergence: at decision {i} thread {c} expected at '{want_label}' but is {other:?}")),
            }
            c
        } else {
            let c = if last_enabled { last.unwrap() } else { enabled[0] };
            for &a in &enabled {
                if a == c {
                    continue;
                }
                let cost = preempt + if last_enabled && Some(a) != last { 1 } else { 0 };
                if bound.map(|b| cost <= b).unwrap_or(true) {
                    let mut p: Vec<(usize, &'static str)> = steps.iter().map(|s| (s.tid, s.label)).collect();
                    let lab = match st[a] {
                        Status::AtPoint(l) => l,
                        _ => unreachable!(),
                    };
                    p.push((a, lab));
                    children.push(p);
                }
            }
            c
        };
        if last_enabled && Some(c) != last {
            preempt += 1;
        }
        let label = match st[c] {
            Status::AtPoint(l) => l,
            _ => unreachable!(),
        };
        steps.push(StepRec { tid: c, label, blocked: false });
        last = Some(c);
        ex.grant(c);
    }
    if !deadlock {
        for h in handles {
            let _ = h.join();
        }
    }
    // (on a deadlock the driver threads are leaked; the process exits at the end of the run)
    let oplog = {
        let g = ex.st.lock().unwrap();
        let mut l = g.oplog.clone();
        l.sort_by_key(|r| (r.thread, r.idx));
        l
    };
    let blocked_grants = steps.iter().filter(|s| s.blocked).count();
    let obs = observe(d, &world, &oplog, deadlock)?;
    if let Ok(w) = Arc::try_unwrap(world) {
        w.release();
    }
    Ok(ExecOut { steps, children, preemptions: preempt, obs, oplog, blocked_grants, prefix_len: prefix.len() })
}

fn observe(_d: &Driver, world: &World, oplog: &[OpRecord], deadlock: bool) -> Result<Observation, String> {
    let results = oplog.iter().map(|r| (r.thread, r.idx, r.op.clone(), r.res.clone())).collect();
    match world {
        World::Toy { counter, locked } => Ok(Observation {
            results,
            nodes: vec![],
            edges: vec![],
            usage: (0, 0),
            wal_created_nodes: vec![],
            wal_created_edges: vec![],
            usage_after_recover1: None,
            usage_after_recover2: None,
            toy_counter: Some(counter.load(Ordering::SeqCst) + *locked.lock().unwrap()),
            deadlock,
        }),
        World::Real { p, tenant, .. } => {
            let (pm, dir, tenant) = (&p.pm, &p.dir, tenant.as_str());
            if deadlock {
                // locks may be held by stuck threads: do not touch the manager
                return Ok(Observation {
                    results,
                    nodes: vec![],
                    edges: vec![],
                    usage: (0, 0),
                    wal_created_nodes: vec![],
                    wal_created_edges: vec![],
                    usage_after_recover1: None,
                    usage_after_recover2: None,
                    toy_counter: None,
                    deadlock,
                });
            }
            let usage_of = |pm: &PersistenceManager| -> Result<(usize, usize), String> {
                let u = pm.tenants().get_usage(tenant).map_err(|e| format!("get_usage: {e}"))?;
                Ok((u.node_count, u.edge_count))
            };
            let usage = usage_of(pm)?;
            let mut nodes: Vec<u64> = pm.storage().scan_nodes(tenant).map_err(|e| format!("scan_nodes: {e}"))?.iter().map(|n| n.id.as_u64()).collect();
            nodes.sort();
            let mut edges: Vec<u64> = pm.storage().scan_edges(tenant).map_err(|e| format!("scan_edges: {e}"))?.iter().map(|e| e.id.as_u64()).collect();
            edges.sort();
            pm.flush().map_err(|e| format!("flush: {e}"))?;
            let wal = Wal::new(dir.join("wal")).map_err(|e| format!("Wal::new: {e}"))?;
            let mut wn = vec![];
            let mut we = vec![];
            wal.replay(0, |e| {
                match e {
                    WalEntry::CreateNode { tenant: tn, node_id, .. } if tn == tenant => wn.push(*node_id),
                    WalEntry::CreateEdge { tenant: tn, edge_id, .. } if tn == tenant => we.push(*edge_id),
                    _ => {}
                }
                Ok(())
            })
            .map_err(|e| format!("wal replay: {e}"))?;
            wn.sort();
            we.sort();
            // quiescent recover, twice (this thread is not a driver thread: hooks are no-ops)
            let r1 = guarded(|| pm.recover(tenant).map(|_| ()).map_err(|e| e.to_string()));
            let u1 = match r1 {
                Ok(Ok(())) => Some(usage_of(pm)?),
                _ => None,
            };
            let r2 = guarded(|| pm.recover(tenant).map(|_| ()).map_err(|e| e.to_string()));
            let u2 = match r2 {
                Ok(Ok(())) => Some(usage_of(pm)?),
                _ => None,
            };
            Ok(Observation { results, nodes, edges, usage, wal_created_nodes: wn, wal_created_edges: we, usage_after_recover1: u1, usage_after_recover2: u2, toy_counter: None, deadlock })
        }
    }
}

// ===========================================================================
// oracle
// ===========================================================================

/// Is there a total order of the operations, consistent with their real-time order
/// (X before Y whenever X returned before Y was invoked), in which accepted creations (+1),
/// and deletions (-1) never take the live count above `quota`? Refusals are always admissible.
fn linearizable_within_quota(ops: &[(u64, u64, i64)], quota: usize) -> bool {
    // ops: (begin, end, delta)
    fn rec(ops: &[(u64, u64, i64)], used: &mut Vec<bool>, count: i64, quota: i64) -> bool {
        if used.iter().all(|u| *u) {
            return true;
        }
        for i in 0..ops.len() {
            if used[i] {
                continue;
            }
            // i may come next only if no other unused op finished before i began
            if (0..ops.len()).any(|j| j != i && !used[j] && ops[j].1 < ops[i].0) {
                continue;
            }
            let c = count + ops[i].2;
            if c > quota || c < 0 {
                continue;
            }
            used[i] = true;
            if rec(ops, used, c, quota) {
                used[i] = false;
                return true;
            }
            used[i] = false;
        }
        false
    }
    rec(ops, &mut vec![false; ops.len()], 0, quota as i64)
}

fn judge(d: &Driver, out: &ExecOut) -> Vec<(String, String)> {
    let mut v = vec![];
    let o = &out.obs;
    if o.deadlock {
        v.push(("deadlock".to_string(), "no driver thread can proceed".to_string()));
        return v;
    }
    for r in &out.oplog {
        match &r.res {
            OpRes::Panic(p) => v.push((format!("panic:{}", opname(&r.op)), format!("{:?} panicked: {p}", r.op))),
            OpRes::Err(e) => v.push((format!("unexpected_error:{}", opname(&r.op)), format!("{:?} failed with a non-quota error: {e}", r.op))),
            _ => {}
        }
    }
    if d.toy {
        return v;
    }
    for (res_name, quota, is_node) in [("nodes", d.max_nodes, true), ("edges", d.max_edges, false)] {
        let mut lin = vec![];
        let mut expect_live: BTreeSet<u64> = BTreeSet::new();
        let mut refused: Vec<u64> = vec![];
        for r in &out.oplog {
            match (&r.op, is_node) {
                (Op::CreateNode(id), true) | (Op::CreateEdge(id), false) => match r.res {
                    OpRes::Ok => {
                        lin.push((r.begin, r.end, 1i64));
                        expect_live.insert(*id);
                    }
                    OpRes::Quota => refused.push(*id),
                    _ => {}
                },
                _ => {}
            }
        }
        for r in &out.oplog {
            match (&r.op, is_node) {
                (Op::DeleteNode(id), true) | (Op::DeleteEdge(id), false) => {
                    if r.res == OpRes::Ok {
                        lin.push((r.begin, r.end, -1i64));
                        expect_live.remove(id);
                    }
                }
                _ => {}
            }
        }
        let stored: &Vec<u64> = if is_node { &o.nodes } else { &o.edges };
        let wal: &Vec<u64> = if is_node { &o.wal_created_nodes } else { &o.wal_created_edges };
        if let Some(q) = quota {
            if !linearizable_within_quota(&lin, q) {
                let acc = lin.iter().filter(|x| x.2 > 0).count();
                let dels = lin.iter().filter(|x| x.2 < 0).count();
                let region = if dels == 0 { "concurrent_create" } else { "concurrent_create_delete" };
                v.push((
                    format!("{region}:{res_name}:accepted_exceed_quota"),
                    format!("{acc} creations of {res_name} accepted ({dels} deletions) with quota {q}: no order of the calls consistent with their real-time order keeps the live count within the quota; persisted {res_name} at the end: {stored:?}"),
                ));
            }
        }
        for id in &refused {
            if stored.contains(id) {
                v.push((format!("refused_create:{res_name}:residue_in_storage"), format!("creation of {res_name} id {id} was refused (quota) but storage holds it: {stored:?}")));
            }
            if wal.contains(id) {
                v.push((format!("refused_create:{res_name}:residue_in_wal"), format!("creation of {res_name} id {id} was refused (quota) but the write-ahead log holds a create entry for it")));
            }
        }
        let want: Vec<u64> = expect_live.iter().copied().collect();
        if *stored != want {
            v.push((format!("quiescent:{res_name}:storage_ne_accepted"), format!("persisted {res_name} {stored:?} != accepted creations minus deletions {want:?}")));
        }
        let usage = if is_node { o.usage.0 } else { o.usage.1 };
        if d.judge_usage_at_quiescence && usage != stored.len() {
            v.push((format!("quiescent:{res_name}:usage_ne_persisted"), format!("get_usage reports {usage} {res_name}, storage holds {} ({stored:?})", stored.len())));
        }
        // recovery on the same manager: usage must equal what is persisted, and stay there
        match (o.usage_after_recover1, o.usage_after_recover2) {
            (Some(u1), Some(u2)) => {
                let (a, b) = if is_node { (u1.0, u2.0) } else { (u1.1, u2.1) };
                if a != stored.len() || b != stored.len() {
                    // attribute to the recover defect only if the counter was right before recover ran
                    // (or is not judged there); otherwise the earlier violation already explains it
                    if !d.judge_usage_at_quiescence || usage == stored.len() {
                        v.push((
                            format!("recover_on_live_manager:{res_name}:usage_ne_persisted"),
                            format!("storage holds {} {res_name}; get_usage was {usage}, after recover() {a}, after a second recover() {b}", stored.len()),
                        ));
                    }
                }
            }
            _ => v.push(("recover:failed".to_string(), "quiescent recover() returned an error or panicked".to_string())),
        }
    }
    v
}

fn opname(op: &Op) -> &'static str {
    match op {
        Op::CreateNode(_) => "create_node",
        Op::DeleteNode(_) => "delete_node",
        Op::CreateEdge(_) => "create_edge",
        Op::DeleteEdge(_) => "delete_edge",
        Op::Recover => "recover",
        Op::ToyRacy => "toy_racy",
        Op::ToyLocked => "toy_locked",
    }
}

// ===========================================================================
// exploration
// ===========================================================================

#[derive(Default, Clone)]
struct ExploreStats {
    schedules: u64,
    tree_edges: u64,
    grants: u64,
    blocked_grants: u64,
    by_preemptions: BTreeMap<usize, u64>,
    outcomes: BTreeMap<String, u64>,
    cap_hit: bool,
    max_len: usize,
    wall_s: f64,
}

struct Vio {
    sig: String,
    msg: String,
    preemptions: usize,
    schedule: Vec<StepRec>,
}

fn sched_json(s: &[StepRec]) -> Value {
    json!(s.iter().map(|x| format!("{}@{}{}", x.tid, x.label, if x.blocked { "!" } else { "" })).collect::<Vec<_>>())
}

fn outcome_key(d: &Driver, o: &Observation) -> String {
    let r: Vec<String> = o.results.iter().map(|(t, _, op, res)| format!("T{t}.{}={}", opname(op), res.short())).collect();
    if d.toy {
        format!("{} counter={:?}", r.join(" "), o.toy_counter)
    } else {
        format!("{} nodes={:?} edges={:?} usage={:?} after_recover={:?}/{:?}{}", r.join(" "), o.nodes, o.edges, o.usage, o.usage_after_recover1, o.usage_after_recover2, if o.deadlock { " DEADLOCK" } else { "" })
    }
}

fn explore(ctx: &Ctx, d: &Driver, bound: Option<usize>, cap: u64, cfg: &SchedCfg, vios: &mut Vec<Vio>) -> ExploreStats {
    use rayon::prelude::*;
    let t0 = Instant::now();
    let mut stats = ExploreStats::default();
    let mut wave: Vec<Vec<(usize, &'static str)>> = vec![vec![]];
    while !wave.is_empty() {
        if stats.schedules + wave.len() as u64 > cap {
            wave.truncate((cap - stats.schedules.min(cap)) as usize);
            stats.cap_hit = true;
            if wave.is_empty() {
                break;
            }
        }
        let outs: Vec<Result<ExecOut, String>> = wave.par_iter().map(|p| execute(d, p, bound, cfg, false)).collect();
        let mut next = vec![];
        for out in outs {
            let out = match out {
                Ok(o) => o,
                Err(e) => die(ctx, &format!("driver {}: {e}", d.name)),
            };
            for r in &out.oplog {
                if !labels_ok(r) {
                    let mut g = HOOK_DRIFT.lock().unwrap();
                    if g.is_none() {
                        *g = Some(format!("hooks out of date: driver {} op {:?} -> {} emitted {:?}, expected one of {:?}", d.name, r.op, r.res.short(), r.labels, allowed_sequences(&r.op)));
                    }
                }
            }
            stats.schedules += 1;
            stats.tree_edges += (out.steps.len() + 1 - out.prefix_len.max(1)) as u64;
            stats.grants += out.steps.len() as u64;
            stats.blocked_grants += out.blocked_grants as u64;
            stats.max_len = stats.max_len.max(out.steps.len());
            *stats.by_preemptions.entry(out.preemptions).or_default() += 1;
            *stats.outcomes.entry(outcome_key(d, &out.obs)).or_default() += 1;
            for (sig, msg) in judge(d, &out) {
                vios.push(Vio { sig, msg, preemptions: out.preemptions, schedule: out.steps.clone() });
            }
            if !stats.cap_hit {
                next.extend(out.children);
            }
        }
        wave = next;
    }
    stats.wall_s = t0.elapsed().as_secs_f64();
    stats
}

/// Re-execute a complete schedule and return its observation.
fn run_schedule(d: &Driver, sched: &[(usize, &'static str)], cfg: &SchedCfg) -> Result<ExecOut, String> {
    let out = execute(d, sched, Some(0), cfg, true)?;
    if out.steps.len() != sched.len() {
        return Err(format!("replay divergence: schedule has {} decisions, execution made {}", sched.len(), out.steps.len()));
    }
    Ok(out)
}

// ===========================================================================
// sequential histories (recovery repeated on the same manager)
// ===========================================================================

#[derive(Clone, Copy, Debug, PartialEq, Eq)]
enum HOp {
    Create,
    DeleteOldest,
    Recover,
}

/// All sequences of length <= len over {create next id, delete oldest live, recover}, single thread;
/// after every step: accepted live <= quota, usage == persisted, refused left nothing.
fn histories(ctx: &Ctx, len: usize, quota: usize, vios: &mut Vec<(String, String, Value)>) -> (u64, u64, BTreeMap<String, u64>) {
    use rayon::prelude::*;
    let seqs: Vec<Vec<usize>> = svmc::engine::odometer::sequences_upto(3, len).collect();
    let total = seqs.len() as u64;
    let results: Vec<(Vec<(String, String, Value)>, u64, String)> = seqs
        .par_iter()
        .map(|s| {
            let ops: Vec<HOp> = s.iter().map(|i| [HOp::Create, HOp::DeleteOldest, HOp::Recover][*i]).collect();
            let d = Driver { name: "hist".into(), max_nodes: Some(quota), max_edges: None, threads: vec![], judge_usage_at_quiescence: true, toy: false };
            let w = match World::new(&d, false) {
                Ok(w) => w,
                Err(e) => return (vec![("machinery".to_string(), e, json!(null))], 0, String::new()),
            };
            let (pm, tenant) = match &w {
                World::Real { p, tenant, .. } => (&p.pm, tenant.clone()),
                _ => unreachable!(),
            };
            let tenant = tenant.as_str();
            let mut out = vec![];
            let mut live: Vec<u64> = vec![];
            let mut next_id = 1u64;
            let mut steps = 0u64;
            let mut trace = vec![];
            for (i, op) in ops.iter().enumerate() {
                let desc;
                let r = guarded(|| match op {
                    HOp::Create => {
                        let id = next_id;
                        (format!("create({id})"), World::run(&w, &Op::CreateNode(id)))
                    }
                    HOp::DeleteOldest => match live.first() {
                        Some(id) => (format!("delete({id})"), World::run(&w, &Op::DeleteNode(*id))),
                        None => ("delete(-)".to_string(), OpRes::Skipped),
                    },
                    HOp::Recover => ("recover".to_string(), World::run(&w, &Op::Recover)),
                });
                let (dsc, res) = match r {
                    Ok(x) => x,
                    Err(p) => (format!("{op:?}"), OpRes::Panic(p)),
                };
                desc = format!("{dsc}={}", res.short());
                trace.push(desc.clone());
                steps += 1;
                let hist = json!({"history": ops[..=i].iter().map(|o| format!("{o:?}")).collect::<Vec<_>>(), "quota": quota, "trace": trace});
                match (op, &res) {
                    (HOp::Create, OpRes::Ok) => {
                        live.push(next_id);
                        next_id += 1;
                    }
                    (HOp::Create, OpRes::Quota) => {
                        let id = next_id;
                        next_id += 1;
                        if pm.storage().get_node(tenant, id).ok().flatten().is_some() {
                            out.push(("refused_create:nodes:residue_in_storage".to_string(), format!("sequential: refused creation of node {id} is in storage"), hist.clone()));
                        }
                    }
                    (HOp::DeleteOldest, OpRes::Ok) => {
                        live.remove(0);
                    }
                    (_, OpRes::Skipped) | (HOp::Recover, OpRes::Ok) => {}
                    (_, other) => {
                        out.push((format!("unexpected_error:{:?}", op).to_lowercase(), format!("sequential: {dsc} -> {}", other.short()), hist.clone()));
                        break;
                    }
                }
                let mut stored: Vec<u64> = pm.storage().scan_nodes(tenant).map(|v| v.iter().map(|n| n.id.as_u64()).collect()).unwrap_or_default();
                stored.sort();
                let usage = pm.tenants().get_usage(tenant).map(|u| u.node_count).unwrap_or(usize::MAX);
                if live.len() > quota {
                    out.push(("sequential:nodes:accepted_exceed_quota".to_string(), format!("{} live accepted nodes with quota {quota}", live.len()), hist.clone()));
                    break;
                }
                if stored != live {
                    out.push(("quiescent:nodes:storage_ne_accepted".to_string(), format!("sequential: persisted {stored:?} != accepted minus deleted {live:?}"), hist.clone()));
                    break;
                }
                if usage != stored.len() {
                    let sig = if *op == HOp::Recover { "recover_on_live_manager:nodes:usage_ne_persisted" } else { "quiescent:nodes:usage_ne_persisted" };
                    out.push((sig.to_string(), format!("sequential history {:?}: get_usage reports {usage} nodes, storage holds {}", trace, stored.len()), hist.clone()));
                    break;
                }
            }
            let key = trace.join(" ");
            w.release();
            (out, steps, key)
        })
        .collect();
    let mut steps = 0;
    let mut outcomes = BTreeMap::new();
    for (o, s, k) in results {
        steps += s;
        *outcomes.entry(k).or_default() += 1;
        for x in o {
            if x.0 == "machinery" {
                die(ctx, &x.1);
            }
            vios.push(x);
        }
    }
    (total, steps, outcomes)
}

// ===========================================================================
// sampling tail: uncontrolled threads
// ===========================================================================

/// `threads` free-running writers (released together by a spin barrier) each create one node for a
/// fresh tenant with node quota `quota`; repeated `trials` times. Not enumeration: it reaches races
/// INSIDE a single TenantManager call, which lie between no two hook points. Reported separately.
fn stress_tail(ctx: &Ctx, trials: u64, threads: usize, quota: usize) -> (Value, Option<(String, String, Value)>) {
    let d = Driver { name: "stress".into(), max_nodes: Some(quota), max_edges: None, threads: vec![], judge_usage_at_quiescence: true, toy: false };
    let mut found = None;
    let mut done = 0u64;
    let mut hist: BTreeMap<usize, u64> = BTreeMap::new();
    for trial in 0..trials {
        let w = Arc::new(World::new(&d, false).unwrap_or_else(|e| die(ctx, &e)));
        let gate = Arc::new(AtomicU64::new(0));
        let hs: Vec<_> = (0..threads)
            .map(|t| {
                let (w, gate) = (w.clone(), gate.clone());
                std::thread::spawn(move || {
                    gate.fetch_add(1, Ordering::SeqCst);
                    let mut spins = 0u32;
                    while gate.load(Ordering::SeqCst) < threads as u64 {
                        std::hint::spin_loop();
                        spins += 1;
                        if spins % 256 == 0 {
                            // on an oversubscribed box the others may not be on a CPU yet
                            std::thread::yield_now();
                        }
                    }
                    guarded(|| w.run(&Op::CreateNode(t as u64 + 1))).unwrap_or_else(OpRes::Panic)
                })
            })
            .collect();
        let res: Vec<OpRes> = hs.into_iter().map(|h| h.join().unwrap_or(OpRes::Panic("join".into()))).collect();
        let accepted = res.iter().filter(|r| **r == OpRes::Ok).count();
        let (stored, usage) = match &*w {
            World::Real { p, tenant, .. } => (p.pm.storage().scan_nodes(tenant).map(|v| v.len()).unwrap_or(usize::MAX), p.pm.tenants().get_usage(tenant).map(|u| u.node_count).unwrap_or(usize::MAX)),
            _ => unreachable!(),
        };
        *hist.entry(accepted).or_default() += 1;
        done += 1;
        if let Ok(w) = Arc::try_unwrap(w) {
            w.release();
        }
        let wit = json!({"kind": "stress", "threads": threads, "quota": quota, "trial": trial, "results": res.iter().map(|r| r.short()).collect::<Vec<_>>(), "persisted": stored, "usage": usage});
        if accepted > quota {
            found = Some(("sampling:concurrent_create:nodes:accepted_exceed_quota".to_string(), format!("free-running threads: {accepted} creations accepted with quota {quota} (trial {trial})"), wit));
            break;
        }
        if stored != accepted || usage != stored {
            found = Some(("sampling:quiescent:nodes:usage_or_storage_ne_accepted".to_string(), format!("free-running threads: accepted {accepted}, persisted {stored}, usage {usage} (trial {trial})"), wit));
            break;
        }
    }
    (json!({"evaluations": done, "seed": ctx.seed, "what": format!("{threads} uncontrolled threads x 1 persist_create_node, node quota {quota}, spin-barrier start"), "accepted_histogram": hist}), found)
}

// ===========================================================================
// main
// ===========================================================================

fn drivers(ctx: &Ctx) -> Vec<(Driver, Vec<Option<usize>>, u64)> {
    let t = |name: &str, mn: Option<usize>, me: Option<usize>, threads: Vec<Vec<Op>>, judge: bool| Driver { name: name.to_string(), max_nodes: mn, max_edges: me, threads, judge_usage_at_quiescence: judge, toy: false };
    let all: Vec<Option<usize>> = vec![Some(0), Some(1), Some(2), Some(3), None];
    let mut v = vec![];
    // 2 creators, nodes, quota 1 and 2 (unbounded in both tiers)
    for q in [1usize, 2] {
        // quick: quota 1 unbounded (the racing case), quota 2 up to bound 3
        let b = if ctx.quick() && q == 2 { vec![Some(0), Some(1), Some(2), Some(3)] } else { all.clone() };
        v.push((t(&format!("2xcreate_node/q{q}"), Some(q), None, vec![vec![Op::CreateNode(1)], vec![Op::CreateNode(2)]], true), b, u64::MAX));
    }
    // 2 creators, relationships, quota 1 (same code shape as nodes: quick stops at bound 3)
    v.push((t("2xcreate_edge/q1", None, Some(1), vec![vec![Op::CreateEdge(1)], vec![Op::CreateEdge(2)]], true), if ctx.quick() { vec![Some(0), Some(1), Some(2), Some(3)] } else { all.clone() }, u64::MAX));
    // create+delete || create, quota 1
    let cd = t("create_delete_node||create_node/q1", Some(1), None, vec![vec![Op::CreateNode(1), Op::DeleteNode(1)], vec![Op::CreateNode(2)]], true);
    // create,create || recover (concurrent recover: only reconciliation is judged), quota 2
    let cr = t("2create_node||recover/q2", Some(2), None, vec![vec![Op::CreateNode(1), Op::CreateNode(2)], vec![Op::Recover]], false);
    if ctx.quick() {
        v.push((cd, vec![Some(0), Some(1), Some(2)], u64::MAX));
        v.push((cr, vec![Some(0), Some(1), Some(2)], u64::MAX));
        v.push((t("3xcreate_node/q1", Some(1), None, vec![vec![Op::CreateNode(1)], vec![Op::CreateNode(2)], vec![Op::CreateNode(3)]], true), vec![Some(0), Some(1)], u64::MAX));
    } else {
        v.push((cd, all.clone(), u64::MAX));
        v.push((cr, all.clone(), u64::MAX));
        v.push((t("2xcreate_edge/q2", None, Some(2), vec![vec![Op::CreateEdge(1)], vec![Op::CreateEdge(2)]], true), all.clone(), u64::MAX));
        v.push((t("create_delete_edge||create_edge/q1", None, Some(1), vec![vec![Op::CreateEdge(1), Op::DeleteEdge(1)], vec![Op::CreateEdge(2)]], true), vec![Some(0), Some(1), Some(2)], u64::MAX));
        for q in [1usize, 2] {
            // 3 threads: bounds 0..2 complete, 3 complete, then unbounded under a cap
            v.push((
                t(&format!("3xcreate_node/q{q}"), Some(q), None, vec![vec![Op::CreateNode(1)], vec![Op::CreateNode(2)], vec![Op::CreateNode(3)]], true),
                vec![Some(0), Some(1), Some(2), Some(3), None],
                if q == 1 { 30_000 } else { 20_000 },
            ));
        }
    }
    v
}

fn silence_stderr() {
    unsafe {
        let fd = libc::open(b"/dev/null\0".as_ptr() as *const libc::c_char, libc::O_WRONLY);
        if fd >= 0 {
            libc::dup2(fd, 2);
        }
    }
}

fn binom(n: u64, k: u64) -> u64 {
    let mut r = 1u64;
    for i in 0..k {
        r = r * (n - i) / (i + 1);
    }
    r
}

fn self_test(ctx: &Ctx) -> Value {
    // (a) exactness: 2 threads x 4 points (op.begin + 3) -> C(8,4) = 70 schedules, outcomes {1,2}
    let cfg = SchedCfg { timeout: Duration::from_millis(2000) };
    let d = Driver { name: "toy_racy".into(), max_nodes: None, max_edges: None, threads: vec![vec![Op::ToyRacy], vec![Op::ToyRacy]], judge_usage_at_quiescence: true, toy: true };
    let mut vios = vec![];
    let s = explore(ctx, &d, None, u64::MAX, &cfg, &mut vios);
    let want = binom(8, 4);
    let counters: BTreeSet<String> = s.outcomes.keys().map(|k| k.rsplit("counter=").next().unwrap().to_string()).collect();
    if s.schedules != want || counters.len() != 2 || s.blocked_grants != 0 || !vios.is_empty() {
        die(ctx, &format!("scheduler self-test (racy toy) failed: {} schedules (want {want}), outcomes {:?}, blocked {}", s.schedules, s.outcomes, s.blocked_grants));
    }
    // bounded counts must be monotone and bound 0 = 2 (one per first thread)
    let s0 = explore(ctx, &d, Some(0), u64::MAX, &cfg, &mut vios);
    if s0.schedules != 2 {
        die(ctx, &format!("scheduler self-test: {} schedules at preemption bound 0 for 2 threads (want 2)", s0.schedules));
    }
    // (b) a Mutex held across a point: must not hang, must not alarm, counter always 2
    let cfg_b = SchedCfg { timeout: Duration::from_millis(150) };
    let d2 = Driver { name: "toy_locked".into(), max_nodes: None, max_edges: None, threads: vec![vec![Op::ToyLocked], vec![Op::ToyLocked]], judge_usage_at_quiescence: true, toy: true };
    let s2 = explore(ctx, &d2, None, u64::MAX, &cfg_b, &mut vios);
    let ok2 = s2.outcomes.keys().all(|k| k.ends_with("counter=Some(2)")) && s2.blocked_grants > 0 && vios.is_empty();
    if !ok2 {
        die(ctx, &format!("scheduler self-test (lock held across a point) failed: outcomes {:?}, blocked grants {}, violations {}", s2.outcomes, s2.blocked_grants, vios.len()));
    }
    json!({"racy_toy_schedules": s.schedules, "racy_toy_expected": want, "racy_toy_outcomes": s.outcomes.len(), "locked_toy_schedules": s2.schedules, "locked_toy_blocked_grants": s2.blocked_grants, "locked_toy_outcomes": s2.outcomes.len()})
}

fn leak_str(s: &str) -> &'static str {
    Box::leak(s.to_string().into_boxed_str())
}

fn main() {
    run_check("C18", Level::ModelChecking, |ctx| {
        silence_stderr();
        let _ = std::fs::create_dir_all(tmp_root());
        samyama::verif_hooks::set_callback(Some(Arc::new(hook)));
        let timeout_ms: u64 = std::env::var("C18_BLOCK_TIMEOUT_MS").ok().and_then(|s| s.parse().ok()).unwrap_or(1500);
        let cfg = SchedCfg { timeout: Duration::from_millis(timeout_ms) };
        if let Some(p) = &ctx.replay {
            replay(ctx, p, &cfg);
            cleanup();
            return;
        }
        let t_phase = Instant::now();
        let st = self_test(ctx);
        ctx.cov("scheduler_self_test", st);
        let self_test_s = t_phase.elapsed().as_secs_f64();
        let t_phase = Instant::now();

        // ---- sequential histories
        let mut hv = vec![];
        let hlen = ctx.tier.pick(4, 6);
        let mut h_total = 0;
        let mut h_steps = 0;
        let mut h_out = 0;
        for q in [1usize, 2] {
            let (t, s, o) = histories(ctx, hlen, q, &mut hv);
            h_total += t;
            h_steps += s;
            h_out += o.len();
        }
        hv.sort_by_key(|x| (x.2["history"].as_array().map(|a| a.len()).unwrap_or(0), x.2.to_string()));
        for (sig, msg, w) in hv {
            ctx.violation(&sig, msg, json!({"kind": "history", "case": w}));
        }
        ctx.cov("sequential_histories", json!({"alphabet": "create(next id) | delete(oldest live) | recover; quota 1,2", "max_len": hlen, "histories": h_total, "steps": h_steps, "distinct_traces": h_out}));

        let histories_s = t_phase.elapsed().as_secs_f64();
        let t_phase = Instant::now();
        let mut confirm_s = 0.0f64;
        // ---- schedules
        let mut per_driver = vec![];
        let mut total_sched = 0u64;
        let mut total_edges = 0u64;
        let mut total_grants = 0u64;
        let mut total_blocked = 0u64;
        let mut any_cap = false;
        let mut distinct_outcomes_total = 0usize;
        let mut confirmed: BTreeSet<String> = BTreeSet::new();
        for (d, bounds, cap) in drivers(ctx) {
            let mut per_bound = vec![];
            let mut vios: Vec<Vio> = vec![];
            let mut last_stats = ExploreStats::default();
            for b in &bounds {
                let mut vb = vec![];
                let s = explore(ctx, &d, *b, cap, &cfg, &mut vb);
                per_bound.push(json!({"bound": b.map(|x| json!(x)).unwrap_or(json!("unbounded")), "schedules": s.schedules, "distinct_outcomes": s.outcomes.len(), "violating_schedules": vb.iter().map(|v| sched_json(&v.schedule).to_string()).collect::<BTreeSet<_>>().len(), "cap_hit": s.cap_hit, "wall_s": (s.wall_s * 10.0).round() / 10.0}));
                total_sched += s.schedules;
                total_edges += s.tree_edges;
                total_grants += s.grants;
                total_blocked += s.blocked_grants;
                any_cap |= s.cap_hit;
                vios.extend(vb);
                last_stats = s;
            }
            distinct_outcomes_total += last_stats.outcomes.len();
            println!("driver {:<40} bounds {:?} -> schedules {:?}, outcomes (last bound) {}", d.name, bounds.iter().map(|b| b.map(|x| x.to_string()).unwrap_or("inf".into())).collect::<Vec<_>>(), per_bound.iter().map(|p| p["schedules"].as_u64().unwrap()).collect::<Vec<_>>(), last_stats.outcomes.len());
            // report: minimal schedule per signature, confirmed by two replays with identical observations
            vios.sort_by(|a, b| (a.preemptions, a.schedule.len(), sched_json(&a.schedule).to_string()).cmp(&(b.preemptions, b.schedule.len(), sched_json(&b.schedule).to_string())));
            {
                let mut seen: BTreeSet<(String, String)> = BTreeSet::new();
                vios.retain(|v| seen.insert((v.sig.clone(), sched_json(&v.schedule).to_string())));
            }
            let mut n_by_sig: BTreeMap<String, u64> = BTreeMap::new();
            for v in &vios {
                *n_by_sig.entry(v.sig.clone()).or_default() += 1;
            }
            for v in &vios {
                let key = v.sig.clone();
                if confirmed.insert(key) {
                    let t_c = Instant::now();
                    let sched: Vec<(usize, &'static str)> = v.schedule.iter().map(|s| (s.tid, s.label)).collect();
                    let a = run_schedule(&d, &sched, &cfg).unwrap_or_else(|e| die(ctx, &format!("replay of a violating schedule failed: {e}")));
                    let b = run_schedule(&d, &sched, &cfg).unwrap_or_else(|e| die(ctx, &format!("replay of a violating schedule failed: {e}")));
                    let sa: BTreeSet<String> = judge(&d, &a).into_iter().map(|x| x.0).collect();
                    if a.obs != b.obs || !sa.contains(&v.sig) {
                        die(ctx, &format!("nondeterministic replay: driver {} schedule {} gave {:?} then {:?}", d.name, sched_json(&v.schedule), a.obs, b.obs));
                    }
                    confirm_s += t_c.elapsed().as_secs_f64();
                }
                ctx.violation(
                    &v.sig,
                    format!("[{}] {}", d.name, v.msg),
                    json!({"kind": "schedule", "driver": d.name, "max_nodes": d.max_nodes, "max_edges": d.max_edges, "threads": d.threads.iter().map(|t| t.iter().map(|o| format!("{o:?}")).collect::<Vec<_>>()).collect::<Vec<_>>(), "judge_usage_at_quiescence": d.judge_usage_at_quiescence, "preemptions": v.preemptions, "schedule": sched_json(&v.schedule)}),
                );
            }
            let mut top: Vec<(String, u64)> = last_stats.outcomes.iter().map(|(k, v)| (k.clone(), *v)).collect();
            top.sort_by(|a, b| b.1.cmp(&a.1));
            per_driver.push(json!({"driver": d.name, "threads": d.threads.len(), "max_decisions": last_stats.max_len, "per_bound": per_bound, "schedules_by_preemptions_last_bound": last_stats.by_preemptions, "outcomes_last_bound": top.iter().take(6).collect::<Vec<_>>(), "violation_classes": n_by_sig}));
            ctx.sample(json!({"driver": d.name, "outcomes": top.iter().take(3).collect::<Vec<_>>()}));
        }
        let schedules_s = t_phase.elapsed().as_secs_f64();
        let t_phase = Instant::now();
        // ---- labelled sampling tail: free-running threads (no baton). Can only add a violation.
        let trials = ctx.tier.pick(500u64, 10000u64);
        let (tail_cov, tail_v) = stress_tail(ctx, trials, 4, 1);
        ctx.cov("sampling_tail", tail_cov);
        ctx.cov("phase_wall_s", json!({"self_test": self_test_s, "sequential_histories": histories_s, "schedules_incl_confirmation": schedules_s, "confirmation_replays_on_fresh_managers": confirm_s, "sampling_tail": t_phase.elapsed().as_secs_f64()}));
        if let Some((sig, msg, w)) = tail_v {
            ctx.violation(&sig, msg, w);
        }
        // ---- hook drift: a pass verdict is not claimable when an operation's points moved
        if let Some(m) = HOOK_DRIFT.lock().unwrap().clone() {
            if ctx.violation_count() == 0 {
                die(ctx, &m);
            }
            println!("NOTE {m} (violations below were observed on real executions and stand; a pass would not have been claimable)");
            ctx.cov("hooks_out_of_date", m);
        }
        ctx.cov("states", total_edges + 1);
        ctx.cov("transitions", total_edges);
        ctx.cov("traces_validated_against_impl", total_sched + h_total);
        ctx.cov("schedules_executed", total_sched);
        ctx.cov("grants_executed", total_grants);
        ctx.cov("blocked_grants", total_blocked);
        ctx.cov("distinct_outcomes", distinct_outcomes_total);
        ctx.cov("cap_hit", any_cap);
        ctx.cov("exhaustive", !any_cap);
        ctx.cov("drivers", json!(per_driver));
        ctx.cov("block_timeout_ms", timeout_ms);
        ctx.assume("states/transitions count nodes/edges of the schedule trees (distinct schedule prefixes), summed over drivers and bounds; every complete schedule is one execution of the real PersistenceManager on a fresh data directory");
        ctx.assume("schedule points: the repository's hook points plus one 'op.begin' point the driver emits before each call; each persist_*/recover call is checked to emit exactly a whitelisted label sequence (else no pass verdict is given: exit 2 'hooks out of date' unless a violation was observed, which stands)");
        ctx.assume("a refusal is always admissible: acceptances must admit an order, consistent with real-time order of the calls, that keeps the live count within the quota; spurious refusals are not judged");
        ctx.assume("recover() concurrent with a writer: only reconciliation is judged (a later quiescent recover() makes usage equal to what is persisted, twice); counter drift while recover overlaps a writer is left out as ambiguous (the server calls recover before serving)");
        ctx.assume("deletions are issued only for entities whose creation was accepted; persisting the same id twice is outside the alphabet");
        ctx.assume("recover's node scan and relationship scan happen between the same two points (drivers never mix nodes and relationships, so no behaviour is lost)");
        cleanup();
    });
}

fn parse_sched(ctx: &Ctx, v: &Value) -> Vec<(usize, &'static str)> {
    v.as_array()
        .unwrap_or_else(|| die(ctx, "replay: no schedule"))
        .iter()
        .map(|s| {
            let s = s.as_str().unwrap().trim_end_matches('!');
            let (t, l) = s.split_once('@').unwrap();
            (t.parse::<usize>().unwrap(), leak_str(l))
        })
        .collect()
}

fn parse_op(s: &str) -> Op {
    let num = |s: &str| s.trim_end_matches(')').split('(').nth(1).and_then(|x| x.parse::<u64>().ok()).unwrap_or(0);
    if s.starts_with("CreateNode") {
        Op::CreateNode(num(s))
    } else if s.starts_with("DeleteNode") {
        Op::DeleteNode(num(s))
    } else if s.starts_with("CreateEdge") {
        Op::CreateEdge(num(s))
    } else if s.starts_with("DeleteEdge") {
        Op::DeleteEdge(num(s))
    } else {
        Op::Recover
    }
}

fn replay(ctx: &Ctx, p: &std::path::Path, cfg: &SchedCfg) {
    let doc: Value = serde_json::from_str(&std::fs::read_to_string(p).expect("read replay")).expect("json");
    let w = &doc["witness"];
    if w["kind"] == "history" {
        let c = &w["case"];
        let quota = c["quota"].as_u64().unwrap() as usize;
        let hist: Vec<String> = c["history"].as_array().unwrap().iter().map(|x| x.as_str().unwrap().to_string()).collect();
        println!("replaying sequential history {:?} at quota {quota}", hist);
        // run exactly this history through the same routine (length-limited enumeration filtered to it)
        let mut hv = vec![];
        let _ = histories(ctx, hist.len(), quota, &mut hv);
        let mut hit = false;
        for (sig, msg, wj) in hv {
            let h2: Vec<String> = wj["history"].as_array().unwrap().iter().map(|x| x.as_str().unwrap().to_string()).collect();
            if h2 == hist {
                println!("  observed trace {}", wj["trace"]);
                println!("  MISMATCH [{sig}] {msg}");
                if doc["signature"].as_str() == Some(sig.as_str()) {
                    ctx.violation(&sig, msg, json!({"kind": "history", "case": wj}));
                }
                hit = true;
            }
        }
        if !hit {
            println!("  no mismatch: usage equals persisted after every step");
        }
        return;
    }
    if w["kind"] == "stress" {
        let (cov, v) = stress_tail(ctx, 20000, w["threads"].as_u64().unwrap_or(4) as usize, w["quota"].as_u64().unwrap_or(1) as usize);
        println!("re-ran the sampling tail: {cov}");
        match v {
            Some((sig, msg, wj)) => {
                println!("  MISMATCH [{sig}] {msg}");
                ctx.violation(&sig, msg, wj);
            }
            None => println!("  not reproduced in this many trials (the tail is sampling, not enumeration)"),
        }
        return;
    }
    let threads: Vec<Vec<Op>> = w["threads"].as_array().unwrap().iter().map(|t| t.as_array().unwrap().iter().map(|o| parse_op(o.as_str().unwrap())).collect()).collect();
    let d = Driver {
        name: w["driver"].as_str().unwrap_or("replay").to_string(),
        max_nodes: w["max_nodes"].as_u64().map(|x| x as usize),
        max_edges: w["max_edges"].as_u64().map(|x| x as usize),
        threads,
        judge_usage_at_quiescence: w["judge_usage_at_quiescence"].as_bool().unwrap_or(true),
        toy: false,
    };
    let sched = parse_sched(ctx, &w["schedule"]);
    println!("replaying driver {} (max_nodes {:?}, max_edges {:?}), {} decisions", d.name, d.max_nodes, d.max_edges, sched.len());
    let mut prev: Option<Observation> = None;
    for round in 1..=2 {
        let out = run_schedule(&d, &sched, cfg).unwrap_or_else(|e| die(ctx, &e));
        println!("run {round}: schedule {}", sched_json(&out.steps));
        for r in &out.oplog {
            println!("  T{} {:?} -> {} (clock {}..{})", r.thread, r.op, r.res.short(), r.begin, r.end);
        }
        println!("  observed: persisted nodes {:?} edges {:?}; get_usage {:?}; after recover {:?}, after second recover {:?}", out.obs.nodes, out.obs.edges, out.obs.usage, out.obs.usage_after_recover1, out.obs.usage_after_recover2);
        println!("  expected: accepted creations within quota (nodes {:?}, edges {:?}); usage == persisted before and after recover", d.max_nodes, d.max_edges);
        let js = judge(&d, &out);
        for (sig, msg) in &js {
            println!("  MISMATCH [{sig}] {msg}");
        }
        if let Some(p) = &prev {
            if *p != out.obs {
                die(ctx, "nondeterministic replay: two runs of the same schedule observed different results");
            }
        }
        prev = Some(out.obs.clone());
        if round == 2 {
            for (sig, msg) in js {
                if doc["signature"].as_str() == Some(sig.as_str()) {
                    ctx.violation(&sig, msg, w.clone());
                }
            }
        }
    }
}
