//! Run a generated query on the engine and compare with the reference result.
#![allow(dead_code)]
use super::ast::Query;
use super::eval::{order_cmp, EvalErr, Evaluator, RefResult};
use samyama::graph::GraphStore;
use samyama::query::executor::{MutQueryExecutor, QueryExecutor};
use samyama::query::parse_query;
use std::collections::BTreeMap;
use svmc::engine::ctx::guarded;
use svmc::model::graph::{IdMap, RefGraph};
use svmc::model::values::{rows_of, LV};

#[derive(Clone, Debug, PartialEq)]
pub enum EngineOut {
    Rows(Vec<Vec<LV>>),
    Err(String),
    Panic(String),
}

pub fn run_read(store: &GraphStore, parsed: &samyama::query::Query) -> EngineOut {
    match guarded(|| QueryExecutor::new(store).execute(parsed)) {
        Ok(Ok(b)) => EngineOut::Rows(rows_of(&b)),
        Ok(Err(e)) => EngineOut::Err(e.to_string()),
        Err(p) => EngineOut::Panic(p),
    }
}
pub fn run_read_params(store: &GraphStore, parsed: &samyama::query::Query, params: &BTreeMap<String, LV>) -> EngineOut {
    let pm: std::collections::HashMap<String, samyama::graph::PropertyValue> = params.iter().map(|(k, v)| (k.clone(), v.to_pv())).collect();
    match guarded(|| QueryExecutor::new(store).with_params(pm).execute(parsed)) {
        Ok(Ok(b)) => EngineOut::Rows(rows_of(&b)),
        Ok(Err(e)) => EngineOut::Err(e.to_string()),
        Err(p) => EngineOut::Panic(p),
    }
}
pub fn run_write(store: &mut GraphStore, parsed: &samyama::query::Query, params: &BTreeMap<String, LV>) -> EngineOut {
    let pm: std::collections::HashMap<String, samyama::graph::PropertyValue> = params.iter().map(|(k, v)| (k.clone(), v.to_pv())).collect();
    match guarded(|| {
        let mut ex = MutQueryExecutor::new(store, "default".to_string());
        if !pm.is_empty() {
            ex = ex.with_params(pm);
        }
        ex.execute(parsed)
    }) {
        Ok(Ok(b)) => EngineOut::Rows(rows_of(&b)),
        Ok(Err(e)) => EngineOut::Err(e.to_string()),
        Err(p) => EngineOut::Panic(p),
    }
}
pub fn parse(text: &str) -> Result<samyama::query::Query, String> {
    match guarded(|| parse_query(text)) {
        Ok(Ok(q)) => Ok(q),
        Ok(Err(e)) => Err(format!("parse error: {e}")),
        Err(p) => Err(format!("parser panic: {p}")),
    }
}

/// floats to 12 significant digits (avg over 3 values is not bit-reproducible across summation orders)
fn canon(v: &LV, unordered: bool) -> LV {
    match v {
        LV::Float(b) => {
            let f = f64::from_bits(*b);
            if f == 0.0 || !f.is_finite() {
                LV::f(if f == 0.0 { 0.0 } else { f })
            } else {
                LV::f(format!("{:.11e}", f).parse::<f64>().unwrap_or(f))
            }
        }
        LV::List(l) => {
            let mut x: Vec<LV> = l.iter().map(|e| canon(e, false)).collect();
            if unordered {
                x.sort();
            }
            LV::List(x)
        }
        LV::Map(m) => LV::Map(m.iter().map(|(k, e)| (k.clone(), canon(e, false))).collect()),
        o => o.clone(),
    }
}
fn canon_rows(rows: &[Vec<LV>], unordered: &[bool]) -> Vec<Vec<LV>> {
    rows.iter().map(|r| r.iter().enumerate().map(|(i, v)| canon(v, unordered.get(i).copied().unwrap_or(false))).collect()).collect()
}
fn sorted(mut v: Vec<Vec<LV>>) -> Vec<Vec<LV>> {
    v.sort();
    v
}
fn is_sub_bag(small: &[Vec<LV>], big: &[Vec<LV>]) -> bool {
    let mut pool = big.to_vec();
    for r in small {
        match pool.iter().position(|x| x == r) {
            Some(i) => {
                pool.swap_remove(i);
            }
            None => return false,
        }
    }
    true
}

#[derive(Clone, Debug, PartialEq)]
pub enum Verdict {
    Agree,
    /// engine refused; accepted by the property
    Refused(String),
    Unjudged(String),
    /// (symptom class, detail)
    Mismatch(String, String),
}

/// Translate engine ids to reference ids in engine rows.
pub fn to_ref_ids(rows: &[Vec<LV>], m: &IdMap) -> Vec<Vec<LV>> {
    let nr = m.node_rev();
    let rr = m.rel_rev();
    let nf = move |x: u64| *nr.get(&x).unwrap_or(&(1_000_000 + x));
    let rf = move |x: u64| *rr.get(&x).unwrap_or(&(1_000_000 + x));
    rows.iter().map(|r| r.iter().map(|v| v.map_ids(&nf, &rf)).collect()).collect()
}

pub fn compare_rows(engine: &[Vec<LV>], r: &RefResult) -> Verdict {
    if r.no_return {
        return if engine.is_empty() { Verdict::Agree } else { Verdict::Mismatch("rows_without_return".into(), format!("statement has no RETURN but {} rows came back", engine.len())) };
    }
    let ncol = r.columns.len();
    if engine.iter().any(|row| row.len() != ncol) {
        return Verdict::Mismatch("column_count".into(), format!("engine row width {:?} vs {} columns", engine.first().map(|x| x.len()), ncol));
    }
    let e = canon_rows(engine, &r.unordered_list_cols);
    let want = canon_rows(&r.rows, &r.unordered_list_cols);
    let full = canon_rows(&r.full_rows, &r.unordered_list_cols);
    let sliced = r.skip.is_some() || r.limit.is_some();
    if e.len() != want.len() {
        let kind = if e.len() > want.len() { "extra_rows" } else { "missing_rows" };
        return Verdict::Mismatch(kind.into(), format!("engine {} rows, reference {} rows; engine={:?} reference={:?}", e.len(), want.len(), trunc(&e), trunc(&want)));
    }
    if !r.order_cols.is_empty() {
        let keys = |rows: &[Vec<LV>]| -> Vec<Vec<LV>> { rows.iter().map(|x| r.order_cols.iter().map(|(i, _)| x[*i].clone()).collect()).collect() };
        if keys(&e) != keys(&want) {
            return Verdict::Mismatch("order".into(), format!("sort-key sequence differs: engine={:?} reference={:?}", trunc(&keys(&e)), trunc(&keys(&want))));
        }
    }
    if sliced {
        if !is_sub_bag(&e, &full) {
            return Verdict::Mismatch("wrong_rows".into(), format!("rows are not a sub-bag of the unsliced reference: engine={:?} reference(full)={:?}", trunc(&e), trunc(&full)));
        }
    } else if sorted(e.clone()) != sorted(want.clone()) {
        return Verdict::Mismatch("wrong_rows".into(), format!("same count, different rows: engine={:?} reference={:?}", trunc(&sorted(e)), trunc(&sorted(want))));
    }
    Verdict::Agree
}
fn trunc(v: &[Vec<LV>]) -> Vec<Vec<LV>> {
    v.iter().take(8).cloned().collect()
}

/// Under the `vl_reach` quirk which route a path / relationship list takes is free: keep only
/// what reachability determines (end points and length).
fn mask_routes(v: &LV) -> LV {
    match v {
        LV::Path(ns, rs) => LV::List(vec![LV::Node(*ns.first().unwrap_or(&0)), LV::Node(*ns.last().unwrap_or(&0)), LV::Int(rs.len() as i64)]),
        LV::List(l) if !l.is_empty() && l.iter().all(|x| matches!(x, LV::Rel(_))) => LV::Int(l.len() as i64),
        LV::List(l) if !l.is_empty() && l.iter().all(|x| matches!(x, LV::Node(_))) => LV::List(vec![l[0].clone(), l[l.len() - 1].clone(), LV::Int(l.len() as i64)]),
        o => o.clone(),
    }
}
fn mask_rows(rows: &[Vec<LV>]) -> Vec<Vec<LV>> {
    rows.iter().map(|r| r.iter().map(mask_routes).collect()).collect()
}

/// After a mismatch under openCypher semantics: is the engine's answer exactly what one of the
/// documented deviations (or a combination) yields? Returns the names of the smallest explaining set.
pub fn explain_by_quirks(q: &Query, g: &RefGraph, engine_rows: &[Vec<LV>], tags: &std::collections::BTreeSet<String>) -> Option<String> {
    use super::eval::Quirks;
    let mut cands: Vec<(&str, Quirks)> = vec![];
    let vl = tags.contains("varlen");
    let comma = tags.contains("comma_rels");
    let optw = tags.contains("optional") && tags.contains("where");
    let all = [("vl_reach", vl), ("no_comma_iso", comma), ("opt_where_post", optw)];
    let applicable: Vec<&str> = all.iter().filter(|(_, on)| *on).map(|(n, _)| *n).collect();
    if applicable.is_empty() {
        return None;
    }
    // subsets by increasing size
    let n = applicable.len();
    let mut masks: Vec<u32> = (1..(1u32 << n)).collect();
    masks.sort_by_key(|m| (m.count_ones(), *m));
    let mut names_of: Vec<String> = vec![];
    for m in masks {
        let mut qk = Quirks::default();
        let mut names = vec![];
        for (i, nm) in applicable.iter().enumerate() {
            if m & (1 << i) != 0 {
                names.push(*nm);
                match *nm {
                    "vl_reach" => qk.vl_reach = true,
                    "no_comma_iso" => qk.no_comma_iso = true,
                    _ => qk.opt_where_post = true,
                }
            }
        }
        names_of.push(names.join("+"));
        cands.push(("", qk));
    }
    for (i, (_, qk)) in cands.iter().enumerate() {
        let mut ev = Evaluator::new(g.clone());
        ev.quirks = *qk;
        let res = ev.run(q);
        if let Err(EvalErr::Unjudged(_)) = res {
            // under the deviation the reference itself has no defined answer (e.g. an aggregate
            // over mixed types on rows that only exist under the deviation): attributed to it
            return Some(format!("{}(unjudged-under-deviation)", names_of[i]));
        }
        if let Ok(r) = res {
            let (e, r2) = if qk.vl_reach {
                let mut r2 = r.clone();
                r2.rows = mask_rows(&r.rows);
                r2.full_rows = mask_rows(&r.full_rows);
                (mask_rows(engine_rows), r2)
            } else {
                (engine_rows.to_vec(), r)
            };
            if compare_rows(&e, &r2) == Verdict::Agree {
                return Some(names_of[i].clone());
            }
        }
    }
    None
}

/// Judge a read query on one graph. `supported`: the query is in the "supported today" baseline.
pub fn judge_read(q: &Query, parsed: &samyama::query::Query, g: &RefGraph, store: &GraphStore, m: &IdMap) -> Verdict {
    let mut ev = Evaluator::new(g.clone());
    let reference = ev.run(q);
    let out = run_read(store, parsed);
    match (reference, out) {
        (_, EngineOut::Panic(p)) => Verdict::Mismatch("panic".into(), p),
        (Err(EvalErr::Unjudged(why)), _) => Verdict::Unjudged(why),
        (_, EngineOut::Err(e)) => Verdict::Refused(e),
        (Err(EvalErr::Refuse(why)), EngineOut::Rows(rows)) => Verdict::Mismatch("should_refuse".into(), format!("openCypher defines an error ({why}) but the engine returned {} rows: {:?}", rows.len(), trunc(&rows))),
        (Ok(r), EngineOut::Rows(rows)) => {
            let er = to_ref_ids(&rows, m);
            match compare_rows(&er, &r) {
                Verdict::Mismatch(sym, detail) => {
                    let tags = super::classify::shape_tags(q);
                    match explain_by_quirks(q, g, &er, &tags) {
                        Some(names) => Verdict::Mismatch(format!("quirk:{names}"), detail),
                        None => Verdict::Mismatch(sym, detail),
                    }
                }
                v => v,
            }
        }
    }
}

pub fn order_cmp_pub(a: &LV, b: &LV) -> std::cmp::Ordering {
    order_cmp(a, b)
}
