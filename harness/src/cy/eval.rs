//! Reference evaluator for the generated Cypher fragment (DESIGN Appendix A).
//! Brute force, boring, independent of the engine. Works on a RefGraph it owns
//! (write clauses mutate it).
#![allow(dead_code)]
use super::ast::*;
use std::collections::{BTreeMap, BTreeSet};
use svmc::model::graph::{RNode, RRel, RefGraph};
use svmc::model::values::LV;

#[derive(Clone, Debug, PartialEq)]
pub enum EvalErr {
    /// openCypher defines an error here: the engine is expected to refuse
    Refuse(String),
    /// semantics left open (Appendix A "unjudged"): no verdict possible
    Unjudged(String),
}
type R<T> = Result<T, EvalErr>;
fn unj<T>(s: &str) -> R<T> {
    Err(EvalErr::Unjudged(s.to_string()))
}

pub type Env = Vec<(String, LV)>;
fn get<'a>(env: &'a Env, k: &str) -> Option<&'a LV> {
    env.iter().rev().find(|(n, _)| n == k).map(|(_, v)| v)
}
fn bind(env: &mut Env, k: &str, v: LV) {
    if let Some(e) = env.iter_mut().find(|(n, _)| n == k) {
        e.1 = v;
    } else {
        env.push((k.to_string(), v));
    }
}

#[derive(Clone, Debug, Default)]
pub struct RefResult {
    pub columns: Vec<String>,
    /// final rows (after ORDER BY / SKIP / LIMIT of the last RETURN)
    pub rows: Vec<Vec<LV>>,
    /// rows before SKIP/LIMIT of the final RETURN (sorted if ORDER BY)
    pub full_rows: Vec<Vec<LV>>,
    /// column index + desc for each ORDER BY key of the final RETURN (keys are projected columns)
    pub order_cols: Vec<(usize, bool)>,
    pub skip: Option<usize>,
    pub limit: Option<usize>,
    /// columns whose list value has no defined element order (labels(), collect())
    pub unordered_list_cols: Vec<bool>,
    /// statement had no RETURN
    pub no_return: bool,
}

/// Documented deviations of the engine from openCypher, switchable so that a mismatch can be
/// attributed to exactly one of them (known findings) — never used for the verdict itself.
#[derive(Clone, Copy, Debug, Default, PartialEq, Eq)]
pub struct Quirks {
    /// variable-length expansion has node-reachability semantics: one row per distinct target
    /// first reached (BFS, source pre-visited) at a depth in [min,max]; its relationships do not
    /// take part in relationship isomorphism
    pub vl_reach: bool,
    /// relationship isomorphism is enforced within one path pattern only, not across the
    /// comma-separated patterns of a MATCH
    pub no_comma_iso: bool,
    /// the WHERE of an OPTIONAL MATCH is applied as a filter after the outer join
    pub opt_where_post: bool,
}

pub struct Evaluator {
    pub g: RefGraph,
    pub params: BTreeMap<String, LV>,
    pub quirks: Quirks,
    /// facts about this run that define known-finding regions (trigger conditions), e.g.
    /// "merge_multi_match": some MERGE row matched more than one existing pattern instance
    pub events: std::cell::RefCell<BTreeSet<String>>,
}

// ---------- value semantics ----------

pub fn equals(a: &LV, b: &LV) -> Option<bool> {
    use LV::*;
    match (a, b) {
        (Null, _) | (_, Null) => None,
        (Int(x), Int(y)) => Some(x == y),
        (Int(_), Float(_)) | (Float(_), Int(_)) | (Float(_), Float(_)) => Some(a.as_f64().unwrap() == b.as_f64().unwrap()),
        (Str(x), Str(y)) => Some(x == y),
        (Bool(x), Bool(y)) => Some(x == y),
        (Node(x), Node(y)) => Some(x == y),
        (Rel(x), Rel(y)) => Some(x == y),
        (List(x), List(y)) => {
            if x.len() != y.len() {
                return Some(false);
            }
            let mut unknown = false;
            for (p, q) in x.iter().zip(y.iter()) {
                match equals(p, q) {
                    Some(false) => return Some(false),
                    None => unknown = true,
                    Some(true) => {}
                }
            }
            if unknown {
                None
            } else {
                Some(true)
            }
        }
        (Map(x), Map(y)) => {
            if x.keys().collect::<Vec<_>>() != y.keys().collect::<Vec<_>>() {
                return Some(false);
            }
            let mut unknown = false;
            for (k, p) in x {
                match equals(p, &y[k]) {
                    Some(false) => return Some(false),
                    None => unknown = true,
                    Some(true) => {}
                }
            }
            if unknown {
                None
            } else {
                Some(true)
            }
        }
        (Path(a1, a2), Path(b1, b2)) => Some(a1 == b1 && a2 == b2),
        _ => Some(false),
    }
}

/// `<` family: Some(ordering) when comparable, None → null
pub fn compare(a: &LV, b: &LV) -> Option<std::cmp::Ordering> {
    use LV::*;
    match (a, b) {
        (Int(x), Int(y)) => Some(x.cmp(y)),
        (Int(_) | Float(_), Int(_) | Float(_)) => a.as_f64().unwrap().partial_cmp(&b.as_f64().unwrap()),
        (Str(x), Str(y)) => Some(x.cmp(y)),
        (Bool(x), Bool(y)) => Some(x.cmp(y)),
        _ => None,
    }
}

/// ORDER BY orderability, ascending: Map < Node < Rel < List < Path < String < Boolean < Number < null
pub fn order_cmp(a: &LV, b: &LV) -> std::cmp::Ordering {
    use LV::*;
    fn rank(v: &LV) -> u8 {
        match v {
            Map(_) => 0,
            Node(_) => 1,
            Rel(_) => 2,
            List(_) => 3,
            Path(..) => 4,
            Str(_) => 5,
            Bool(_) => 6,
            Int(_) | Float(_) => 7,
            Other(_) => 8,
            Null => 9,
        }
    }
    let (ra, rb) = (rank(a), rank(b));
    if ra != rb {
        return ra.cmp(&rb);
    }
    match (a, b) {
        (Int(_) | Float(_), Int(_) | Float(_)) => compare(a, b).unwrap_or(std::cmp::Ordering::Equal),
        (Str(x), Str(y)) => x.cmp(y),
        (Bool(x), Bool(y)) => x.cmp(y),
        (List(x), List(y)) => {
            for (p, q) in x.iter().zip(y.iter()) {
                let c = order_cmp(p, q);
                if c != std::cmp::Ordering::Equal {
                    return c;
                }
            }
            x.len().cmp(&y.len())
        }
        _ => a.cmp(b),
    }
}

/// grouping / DISTINCT equivalence key (null ≡ null). Numbers equal across Int/Float are
/// never both present in one generated case, so the structural key is adequate.
fn group_key(row: &[LV]) -> Vec<LV> {
    row.to_vec()
}

fn tv_and(a: Option<bool>, b: Option<bool>) -> Option<bool> {
    match (a, b) {
        (Some(false), _) | (_, Some(false)) => Some(false),
        (Some(true), Some(true)) => Some(true),
        _ => None,
    }
}
fn tv_or(a: Option<bool>, b: Option<bool>) -> Option<bool> {
    match (a, b) {
        (Some(true), _) | (_, Some(true)) => Some(true),
        (Some(false), Some(false)) => Some(false),
        _ => None,
    }
}
fn tv_of(v: &LV) -> R<Option<bool>> {
    match v {
        LV::Bool(b) => Ok(Some(*b)),
        LV::Null => Ok(None),
        _ => unj("non-boolean operand of a connective"),
    }
}
fn tv_lv(t: Option<bool>) -> LV {
    match t {
        Some(b) => LV::Bool(b),
        None => LV::Null,
    }
}

fn conjuncts(e: &Expr) -> Vec<Expr> {
    match e {
        Expr::And(a, b) => {
            let mut v = conjuncts(a);
            v.extend(conjuncts(b));
            v
        }
        o => vec![o.clone()],
    }
}
fn conj(mut v: Vec<Expr>) -> Option<Expr> {
    let first = if v.is_empty() { return None } else { v.remove(0) };
    Some(v.into_iter().fold(first, |acc, x| Expr::And(Box::new(acc), Box::new(x))))
}
pub fn expr_vars(e: &Expr) -> Vec<String> {
    let mut out = vec![];
    fn walk(e: &Expr, out: &mut Vec<String>) {
        match e {
            Expr::Var(v) | Expr::Prop(v, _) | Expr::HasLabel(v, _) => out.push(v.clone()),
            Expr::Cmp(_, a, b) | Expr::And(a, b) | Expr::Or(a, b) | Expr::Xor(a, b) | Expr::In(a, b) | Expr::StrOp(_, a, b) | Expr::Arith(_, a, b) => {
                walk(a, out);
                walk(b, out);
            }
            Expr::Not(a) | Expr::IsNull(a, _) => walk(a, out),
            Expr::List(l) | Expr::Func(_, l) => l.iter().for_each(|x| walk(x, out)),
            Expr::Map(m) => m.iter().for_each(|(_, x)| walk(x, out)),
            Expr::Agg(_, _, Some(a)) => walk(a, out),
            Expr::Case(a, b, c) => {
                walk(a, out);
                walk(b, out);
                walk(c, out);
            }
            _ => {}
        }
    }
    walk(e, &mut out);
    out
}

impl Evaluator {
    pub fn new(g: RefGraph) -> Self {
        Evaluator { g, params: BTreeMap::new(), quirks: Quirks::default(), events: Default::default() }
    }
    fn event(&self, e: &str) {
        self.events.borrow_mut().insert(e.to_string());
    }
    pub fn events_str(&self) -> String {
        self.events.borrow().iter().cloned().collect::<Vec<_>>().join("+")
    }

    // ---------- expressions ----------
    pub fn eval(&self, e: &Expr, env: &Env) -> R<LV> {
        Ok(match e {
            Expr::Lit(v) => v.clone(),
            Expr::Param(p) => match self.params.get(p) {
                Some(v) => v.clone(),
                None => return Err(EvalErr::Refuse(format!("missing parameter {p}"))),
            },
            Expr::Var(v) => match get(env, v) {
                Some(x) => x.clone(),
                None => return unj("unbound variable"),
            },
            Expr::Prop(v, k) => match get(env, v) {
                Some(LV::Node(id)) => match self.g.nodes.get(id) {
                    Some(n) => n.props.get(k).cloned().unwrap_or(LV::Null),
                    None => return unj("property of a deleted node"),
                },
                Some(LV::Rel(id)) => match self.g.rels.get(id) {
                    Some(r) => r.props.get(k).cloned().unwrap_or(LV::Null),
                    None => return unj("property of a deleted relationship"),
                },
                Some(LV::Null) => LV::Null,
                Some(LV::Map(m)) => m.get(k).cloned().unwrap_or(LV::Null),
                Some(_) => return unj("property access on a non-entity"),
                None => return unj("unbound variable"),
            },
            Expr::Cmp(op, a, b) => {
                let (x, y) = (self.eval(a, env)?, self.eval(b, env)?);
                match op {
                    CmpOp::Eq => tv_lv(equals(&x, &y)),
                    CmpOp::Ne => tv_lv(equals(&x, &y).map(|b| !b)),
                    _ => {
                        if x.is_null() || y.is_null() {
                            LV::Null
                        } else {
                            match compare(&x, &y) {
                                None => LV::Null,
                                Some(o) => LV::Bool(match op {
                                    CmpOp::Lt => o.is_lt(),
                                    CmpOp::Le => o.is_le(),
                                    CmpOp::Gt => o.is_gt(),
                                    CmpOp::Ge => o.is_ge(),
                                    _ => unreachable!(),
                                }),
                            }
                        }
                    }
                }
            }
            Expr::And(a, b) => tv_lv(tv_and(tv_of(&self.eval(a, env)?)?, tv_of(&self.eval(b, env)?)?)),
            Expr::Or(a, b) => tv_lv(tv_or(tv_of(&self.eval(a, env)?)?, tv_of(&self.eval(b, env)?)?)),
            Expr::Xor(a, b) => match (tv_of(&self.eval(a, env)?)?, tv_of(&self.eval(b, env)?)?) {
                (Some(x), Some(y)) => LV::Bool(x != y),
                _ => LV::Null,
            },
            Expr::Not(a) => tv_lv(tv_of(&self.eval(a, env)?)?.map(|b| !b)),
            Expr::IsNull(a, neg) => LV::Bool(self.eval(a, env)?.is_null() != *neg),
            Expr::HasLabel(v, l) => match get(env, v) {
                Some(LV::Node(id)) => match self.g.nodes.get(id) {
                    Some(n) => LV::Bool(n.labels.contains(l)),
                    None => return unj("label test on a deleted node"),
                },
                Some(LV::Null) => LV::Null,
                _ => return unj("label test on a non-node"),
            },
            Expr::In(a, l) => {
                let x = self.eval(a, env)?;
                match self.eval(l, env)? {
                    LV::Null => LV::Null,
                    LV::List(items) => {
                        if items.is_empty() {
                            LV::Bool(false)
                        } else {
                            let mut unknown = false;
                            let mut found = false;
                            for it in &items {
                                match equals(&x, it) {
                                    Some(true) => {
                                        found = true;
                                        break;
                                    }
                                    None => unknown = true,
                                    Some(false) => {}
                                }
                            }
                            if found {
                                LV::Bool(true)
                            } else if unknown {
                                LV::Null
                            } else {
                                LV::Bool(false)
                            }
                        }
                    }
                    _ => return unj("IN over a non-list"),
                }
            }
            Expr::StrOp(op, a, b) => match (self.eval(a, env)?, self.eval(b, env)?) {
                (LV::Str(x), LV::Str(y)) => LV::Bool(match op {
                    StrOp::StartsWith => x.starts_with(&y),
                    StrOp::EndsWith => x.ends_with(&y),
                    StrOp::Contains => x.contains(&y),
                }),
                _ => LV::Null,
            },
            Expr::Arith(op, a, b) => {
                let (x, y) = (self.eval(a, env)?, self.eval(b, env)?);
                if x.is_null() || y.is_null() {
                    // a null operand yields null — but a zero integer divisor with a null dividend is
                    // left unjudged (implementations differ on evaluation order)
                    return Ok(LV::Null);
                }
                match (&x, &y) {
                    (LV::Int(p), LV::Int(q)) => {
                        let r = match op {
                            ArOp::Add => p.checked_add(*q),
                            ArOp::Sub => p.checked_sub(*q),
                            ArOp::Mul => p.checked_mul(*q),
                            ArOp::Div => {
                                if *q == 0 {
                                    self.event("div_zero");
                                    return Err(EvalErr::Refuse("integer division by zero".into()));
                                }
                                p.checked_div(*q)
                            }
                            ArOp::Mod => {
                                if *q == 0 {
                                    self.event("div_zero");
                                    return Err(EvalErr::Refuse("integer modulo by zero".into()));
                                }
                                p.checked_rem(*q)
                            }
                        };
                        match r {
                            Some(v) => LV::Int(v),
                            None => return unj("integer overflow"),
                        }
                    }
                    (LV::Int(_) | LV::Float(_), LV::Int(_) | LV::Float(_)) => {
                        let (p, q) = (x.as_f64().unwrap(), y.as_f64().unwrap());
                        if matches!(op, ArOp::Div | ArOp::Mod) && q == 0.0 {
                            return unj("float division by zero");
                        }
                        let r = match op {
                            ArOp::Add => p + q,
                            ArOp::Sub => p - q,
                            ArOp::Mul => p * q,
                            ArOp::Div => p / q,
                            ArOp::Mod => p % q,
                        };
                        LV::f(r)
                    }
                    (LV::Str(p), LV::Str(q)) if *op == ArOp::Add => LV::Str(format!("{p}{q}")),
                    _ => return unj("arithmetic over mixed / non-numeric types"),
                }
            }
            Expr::List(l) => LV::List(l.iter().map(|x| self.eval(x, env)).collect::<R<Vec<_>>>()?),
            Expr::Map(m) => LV::Map(m.iter().map(|(k, x)| Ok((k.clone(), self.eval(x, env)?))).collect::<R<BTreeMap<_, _>>>()?),
            Expr::Func(f, args) => {
                let vals: Vec<LV> = args.iter().map(|x| self.eval(x, env)).collect::<R<Vec<_>>>()?;
                match (f.as_str(), vals.as_slice()) {
                    ("type", [LV::Rel(id)]) => match self.g.rels.get(id) {
                        Some(r) => LV::Str(r.ty.clone()),
                        None => return unj("type() of a deleted relationship"),
                    },
                    ("type", [LV::Null]) => LV::Null,
                    ("labels", [LV::Node(id)]) => match self.g.nodes.get(id) {
                        Some(n) => LV::List(n.labels.iter().map(|l| LV::Str(l.clone())).collect()),
                        None => return unj("labels() of a deleted node"),
                    },
                    ("labels", [LV::Null]) => LV::Null,
                    ("coalesce", vs) => vs.iter().find(|v| !v.is_null()).cloned().unwrap_or(LV::Null),
                    ("length", [LV::Path(_, rs)]) => LV::Int(rs.len() as i64),
                    ("length", [LV::Null]) => LV::Null,
                    ("size", [LV::List(l)]) => LV::Int(l.len() as i64),
                    ("size", [LV::Str(s)]) => LV::Int(s.chars().count() as i64),
                    ("size", [LV::Null]) => LV::Null,
                    ("nodes", [LV::Path(ns, _)]) => LV::List(ns.iter().map(|n| LV::Node(*n)).collect()),
                    ("relationships", [LV::Path(_, rs)]) => LV::List(rs.iter().map(|r| LV::Rel(*r)).collect()),
                    ("startNode", [LV::Rel(id)]) => LV::Node(self.g.rels[id].src),
                    ("endNode", [LV::Rel(id)]) => LV::Node(self.g.rels[id].dst),
                    ("toString", [LV::Int(i)]) => LV::Str(i.to_string()),
                    ("toString", [LV::Str(s)]) => LV::Str(s.clone()),
                    ("toString", [LV::Bool(b)]) => LV::Str(b.to_string()),
                    ("toString", [LV::Null]) => LV::Null,
                    ("abs", [LV::Int(i)]) => LV::Int(i.abs()),
                    ("properties", [LV::Node(id)]) => LV::Map(self.g.nodes[id].props.clone()),
                    ("properties", [LV::Rel(id)]) => LV::Map(self.g.rels[id].props.clone()),
                    ("properties", [LV::Null]) => LV::Null,
                    ("keys", [LV::Node(id)]) => LV::List(self.g.nodes[id].props.keys().map(|k| LV::Str(k.clone())).collect()),
                    ("head", [LV::List(l)]) => l.first().cloned().unwrap_or(LV::Null),
                    _ => return unj("function not modelled for these argument types"),
                }
            }
            Expr::Agg(..) => return unj("aggregate in a non-projection position"),
            Expr::Case(c, a, b) => match tv_of(&self.eval(c, env)?)? {
                Some(true) => self.eval(a, env)?,
                _ => self.eval(b, env)?,
            },
        })
    }

    fn is_true(&self, e: &Expr, env: &Env) -> R<bool> {
        Ok(tv_of(&self.eval(e, env)?)? == Some(true))
    }

    // ---------- pattern matching ----------
    fn node_ok(&self, id: u64, pat: &NodePat, env: &Env) -> R<bool> {
        let n = match self.g.nodes.get(&id) {
            Some(n) => n,
            None => return Ok(false),
        };
        for l in &pat.labels {
            if !n.labels.contains(l) {
                return Ok(false);
            }
        }
        for (k, e) in &pat.props {
            let want = self.eval(e, env)?;
            let have = n.props.get(k).cloned().unwrap_or(LV::Null);
            if equals(&have, &want) != Some(true) {
                return Ok(false);
            }
        }
        Ok(true)
    }
    fn rel_ok(&self, id: u64, pat: &RelPat, env: &Env) -> R<bool> {
        let r = &self.g.rels[&id];
        if !pat.types.is_empty() && !pat.types.contains(&r.ty) {
            return Ok(false);
        }
        for (k, e) in &pat.props {
            let want = self.eval(e, env)?;
            let have = r.props.get(k).cloned().unwrap_or(LV::Null);
            if equals(&have, &want) != Some(true) {
                return Ok(false);
            }
        }
        Ok(true)
    }
    /// candidate node ids for a node pattern under env (binds nothing)
    fn node_candidates(&self, pat: &NodePat, env: &Env) -> R<Vec<u64>> {
        if let Some(v) = &pat.var {
            if let Some(b) = get(env, v) {
                return match b {
                    LV::Node(id) => Ok(if self.node_ok(*id, pat, env)? { vec![*id] } else { vec![] }),
                    LV::Null => Ok(vec![]),
                    _ => unj("node variable bound to a non-node"),
                };
            }
        }
        let mut out = vec![];
        for id in self.g.nodes.keys() {
            if self.node_ok(*id, pat, env)? {
                out.push(*id);
            }
        }
        Ok(out)
    }
    /// one-hop expansions from `cur` under rel pattern: (rel id, next node)
    fn hops(&self, cur: u64, pat: &RelPat, env: &Env, used: &[u64]) -> R<Vec<(u64, u64)>> {
        let mut out = vec![];
        for (id, r) in &self.g.rels {
            if used.contains(id) {
                continue;
            }
            if !self.rel_ok(*id, pat, env)? {
                continue;
            }
            match pat.dir {
                Dir::Out => {
                    if r.src == cur {
                        out.push((*id, r.dst));
                    }
                }
                Dir::In => {
                    if r.dst == cur {
                        out.push((*id, r.src));
                    }
                }
                Dir::Both => {
                    if r.src == cur {
                        out.push((*id, r.dst));
                    }
                    if r.dst == cur && r.src != r.dst {
                        out.push((*id, r.src));
                    }
                }
            }
        }
        Ok(out)
    }
    /// all paths (rel sequences) from `cur` of length in [min,max], pairwise-distinct rels
    fn var_paths(&self, cur: u64, pat: &RelPat, env: &Env, used: &[u64], min: u32, max: u32) -> R<Vec<(Vec<u64>, Vec<u64>)>> {
        // returns (rels, nodes visited including start)
        let mut out = vec![];
        let mut stack: Vec<(Vec<u64>, Vec<u64>)> = vec![(vec![], vec![cur])];
        while let Some((rels, nodes)) = stack.pop() {
            if rels.len() as u32 >= min {
                out.push((rels.clone(), nodes.clone()));
            }
            if rels.len() as u32 >= max {
                continue;
            }
            let mut u = used.to_vec();
            u.extend(rels.iter().copied());
            let single = RelPat { len: None, ..pat.clone() };
            for (rid, nxt) in self.hops(*nodes.last().unwrap(), &single, env, &u)? {
                let mut r2 = rels.clone();
                r2.push(rid);
                let mut n2 = nodes.clone();
                n2.push(nxt);
                stack.push((r2, n2));
            }
        }
        out.sort();
        Ok(out)
    }

    /// quirk `vl_reach`: BFS from `cur`; one (rels, nodes) shortest route per node first reached
    /// at a depth in [min,max]; the source counts as visited (emitted only for min == 0)
    fn reach_paths(&self, cur: u64, pat: &RelPat, env: &Env, min: u32, max: u32) -> R<Vec<(Vec<u64>, Vec<u64>)>> {
        let mut out = vec![];
        let mut visited: BTreeSet<u64> = BTreeSet::new();
        visited.insert(cur);
        if min == 0 {
            out.push((vec![], vec![cur]));
        }
        let mut frontier: Vec<(Vec<u64>, Vec<u64>)> = vec![(vec![], vec![cur])];
        let mut depth = 0u32;
        let single = RelPat { len: None, ..pat.clone() };
        while !frontier.is_empty() && depth < max {
            depth += 1;
            let mut next = vec![];
            for (rels, nodes) in &frontier {
                for (rid, nxt) in self.hops(*nodes.last().unwrap(), &single, env, &[])? {
                    if visited.insert(nxt) {
                        let mut r2 = rels.clone();
                        r2.push(rid);
                        let mut n2 = nodes.clone();
                        n2.push(nxt);
                        if depth >= min {
                            out.push((r2.clone(), n2.clone()));
                        }
                        next.push((r2, n2));
                    }
                }
            }
            frontier = next;
        }
        Ok(out)
    }

    fn match_path(&self, pat: &PathPat, env: &Env, used: &Vec<u64>, out: &mut Vec<(Env, Vec<u64>)>) -> R<()> {
        if pat.kind != PathKind::Plain {
            return self.match_shortest(pat, env, used, out);
        }
        for start in self.node_candidates(&pat.start, env)? {
            let mut e = env.clone();
            if let Some(v) = &pat.start.var {
                bind(&mut e, v, LV::Node(start));
            }
            self.match_steps(pat, 0, start, e, used.clone(), vec![start], vec![], out)?;
        }
        Ok(())
    }
    #[allow(clippy::too_many_arguments)]
    fn match_steps(&self, pat: &PathPat, i: usize, cur: u64, env: Env, used: Vec<u64>, pnodes: Vec<u64>, prels: Vec<u64>, out: &mut Vec<(Env, Vec<u64>)>) -> R<()> {
        if i == pat.steps.len() {
            let mut e = env;
            if let Some(p) = &pat.pvar {
                bind(&mut e, p, LV::Path(pnodes, prels));
            }
            out.push((e, used));
            return Ok(());
        }
        let (rp, np) = &pat.steps[i];
        // a relationship variable already bound (by an earlier clause) restricts the hop
        let bound_rel = rp.var.as_ref().and_then(|v| get(&env, v).cloned());
        match rp.len {
            None => {
                for (rid, nxt) in self.hops(cur, rp, &env, &used)? {
                    if let Some(b) = &bound_rel {
                        match b {
                            LV::Rel(x) if *x == rid => {}
                            LV::Rel(_) => continue,
                            LV::Null => continue,
                            _ => return unj("relationship variable bound to a non-relationship"),
                        }
                    }
                    if !self.end_ok(nxt, np, &env)? {
                        continue;
                    }
                    let mut e = env.clone();
                    if let Some(v) = &rp.var {
                        bind(&mut e, v, LV::Rel(rid));
                    }
                    if let Some(v) = &np.var {
                        bind(&mut e, v, LV::Node(nxt));
                    }
                    let mut u = used.clone();
                    u.push(rid);
                    let mut pn = pnodes.clone();
                    pn.push(nxt);
                    let mut pr = prels.clone();
                    pr.push(rid);
                    self.match_steps(pat, i + 1, nxt, e, u, pn, pr, out)?;
                }
            }
            Some((min, max)) => {
                if bound_rel.is_some() {
                    return unj("variable-length relationship variable already bound");
                }
                let min = min.unwrap_or(1);
                let max = max.unwrap_or(self.g.rels.len() as u32 + 1);
                let paths = if self.quirks.vl_reach { self.reach_paths(cur, rp, &env, min, max)? } else { self.var_paths(cur, rp, &env, &used, min, max)? };
                for (rels, nodes) in paths {
                    let nxt = *nodes.last().unwrap();
                    if !self.end_ok(nxt, np, &env)? {
                        continue;
                    }
                    let mut e = env.clone();
                    if let Some(v) = &rp.var {
                        bind(&mut e, v, LV::List(rels.iter().map(|r| LV::Rel(*r)).collect()));
                    }
                    if let Some(v) = &np.var {
                        bind(&mut e, v, LV::Node(nxt));
                    }
                    let mut u = used.clone();
                    if !self.quirks.vl_reach {
                        u.extend(rels.iter().copied());
                    }
                    let mut pn = pnodes.clone();
                    pn.extend(nodes.iter().skip(1).copied());
                    let mut pr = prels.clone();
                    pr.extend(rels.iter().copied());
                    self.match_steps(pat, i + 1, nxt, e, u, pn, pr, out)?;
                }
            }
        }
        Ok(())
    }
    fn end_ok(&self, id: u64, np: &NodePat, env: &Env) -> R<bool> {
        if let Some(v) = &np.var {
            if let Some(b) = get(env, v) {
                return match b {
                    LV::Node(x) => Ok(*x == id && self.node_ok(id, np, env)?),
                    LV::Null => Ok(false),
                    _ => unj("node variable bound to a non-node"),
                };
            }
        }
        self.node_ok(id, np, env)
    }
    fn match_shortest(&self, pat: &PathPat, env: &Env, used: &Vec<u64>, out: &mut Vec<(Env, Vec<u64>)>) -> R<()> {
        if pat.steps.len() != 1 {
            return unj("shortestPath over more than one relationship pattern");
        }
        let (rp, np) = &pat.steps[0];
        let (min, max) = match rp.len {
            Some((a, b)) => (a.unwrap_or(1), b.unwrap_or(self.g.rels.len() as u32 + 1)),
            None => (1, 1),
        };
        for s in self.node_candidates(&pat.start, env)? {
            let mut e0 = env.clone();
            if let Some(v) = &pat.start.var {
                bind(&mut e0, v, LV::Node(s));
            }
            if self.end_ok(s, np, &e0)? {
                // start node is itself an admissible end node: what shortestPath(a, a) means is not fixed
                return unj("shortestPath with identical end nodes");
            }
            // group all admissible paths by end node
            let paths = self.var_paths(s, rp, &e0, used, min, max)?;
            let mut by_end: BTreeMap<u64, Vec<(Vec<u64>, Vec<u64>)>> = BTreeMap::new();
            for (rels, nodes) in paths {
                let t = *nodes.last().unwrap();
                if !self.end_ok(t, np, &e0)? {
                    continue;
                }
                by_end.entry(t).or_default().push((rels, nodes));
            }
            for (t, ps) in by_end {
                if t == s {
                    return unj("shortestPath with identical end nodes");
                }
                let l = ps.iter().map(|p| p.0.len()).min().unwrap();
                let best: Vec<_> = ps.into_iter().filter(|p| p.0.len() == l).collect();
                let take = if pat.kind == PathKind::Shortest { 1 } else { best.len() };
                for (rels, nodes) in best.into_iter().take(take) {
                    let mut e = e0.clone();
                    if let Some(v) = &rp.var {
                        bind(&mut e, v, LV::List(rels.iter().map(|r| LV::Rel(*r)).collect()));
                    }
                    if let Some(v) = &np.var {
                        bind(&mut e, v, LV::Node(t));
                    }
                    if let Some(p) = &pat.pvar {
                        bind(&mut e, p, LV::Path(nodes.clone(), rels.clone()));
                    }
                    out.push((e, used.clone()));
                }
            }
        }
        Ok(())
    }

    /// all matches of the comma-separated patterns for one input row
    fn match_all(&self, pats: &[PathPat], env: &Env) -> R<Vec<Env>> {
        let mut cur: Vec<(Env, Vec<u64>)> = vec![(env.clone(), vec![])];
        for p in pats {
            let mut next = vec![];
            for (e, used) in &cur {
                if self.quirks.no_comma_iso {
                    self.match_path(p, e, &vec![], &mut next)?;
                } else {
                    self.match_path(p, e, used, &mut next)?;
                }
            }
            cur = next;
        }
        Ok(cur.into_iter().map(|(e, _)| e).collect())
    }

    // ---------- clauses ----------
    pub fn run(&mut self, q: &Query) -> R<RefResult> {
        let left = self.run_single(q)?;
        if let Some((all, rhs)) = &q.union {
            let right = self.run(rhs)?;
            if left.columns.len() != right.columns.len() {
                return Err(EvalErr::Refuse("UNION column mismatch".into()));
            }
            let mut rows = left.rows.clone();
            rows.extend(right.rows.clone());
            if !*all {
                let mut seen = BTreeSet::new();
                rows.retain(|r| seen.insert(group_key(r)));
            }
            let n = left.columns.len();
            return Ok(RefResult { columns: left.columns, full_rows: rows.clone(), rows, unordered_list_cols: (0..n).map(|i| left.unordered_list_cols[i] || right.unordered_list_cols[i]).collect(), ..Default::default() });
        }
        Ok(left)
    }

    fn run_single(&mut self, q: &Query) -> R<RefResult> {
        let mut rows: Vec<Env> = vec![vec![]];
        let mut result: Option<RefResult> = None;
        let mut deleted_nodes: BTreeSet<u64> = BTreeSet::new();
        let n_clauses = q.clauses.len();
        for (ci, c) in q.clauses.iter().enumerate() {
            match c {
                Clause::Match { optional, pats, where_ } => {
                    let mut next = vec![];
                    // quirk opt_where_post: the conjuncts of an OPTIONAL MATCH's WHERE that mention only
                    // variables bound before the clause are applied as a filter after the outer join
                    let (match_pred, post_pred): (Option<Expr>, Option<Expr>) = match (where_, *optional && self.quirks.opt_where_post) {
                        (Some(w), true) => {
                            let outer: Vec<String> = rows.first().map(|e| e.iter().map(|(k, _)| k.clone()).collect()).unwrap_or_default();
                            let mut inner_c = vec![];
                            let mut outer_c = vec![];
                            for c in conjuncts(w) {
                                if expr_vars(&c).iter().all(|v| outer.contains(v)) {
                                    outer_c.push(c);
                                } else {
                                    inner_c.push(c);
                                }
                            }
                            (conj(inner_c), conj(outer_c))
                        }
                        (w, _) => (w.clone(), None),
                    };
                    let post_filter = post_pred.is_some();
                    let where_ = &match_pred;
                    for env in &rows {
                        let mut ms = self.match_all(pats, env)?;
                        if let Some(w) = where_ {
                            let mut kept = vec![];
                            for m in ms {
                                if self.is_true(w, &m)? {
                                    kept.push(m);
                                }
                            }
                            ms = kept;
                        }
                        if ms.is_empty() && *optional {
                            let mut e = env.clone();
                            for p in pats {
                                for v in p.vars() {
                                    if get(&e, &v).is_none() {
                                        bind(&mut e, &v, LV::Null);
                                    }
                                }
                            }
                            next.push(e);
                        } else {
                            next.extend(ms);
                        }
                    }
                    if post_filter {
                        let w = post_pred.as_ref().unwrap();
                        let mut kept = vec![];
                        for m in next {
                            if self.is_true(w, &m)? {
                                kept.push(m);
                            }
                        }
                        next = kept;
                    }
                    rows = next;
                }
                Clause::Unwind { list, var } => {
                    let mut next = vec![];
                    for env in &rows {
                        match self.eval(list, env)? {
                            LV::List(items) => {
                                for it in items {
                                    let mut e = env.clone();
                                    bind(&mut e, var, it);
                                    next.push(e);
                                }
                            }
                            LV::Null => {}
                            _ => return unj("UNWIND of a non-list"),
                        }
                    }
                    rows = next;
                }
                Clause::With(p) => {
                    let r = self.project(p, &rows, false)?;
                    rows = r.rows.iter().map(|row| r.columns.iter().cloned().zip(row.iter().cloned()).collect()).collect();
                }
                Clause::Return(p) => {
                    if ci != n_clauses - 1 {
                        return unj("RETURN before the end");
                    }
                    result = Some(self.project(p, &rows, true)?);
                }
                Clause::Create(pats) => {
                    let mut next = vec![];
                    for env in &rows {
                        let mut e = env.clone();
                        for p in pats {
                            self.create_path(p, &mut e)?;
                        }
                        next.push(e);
                    }
                    rows = next;
                }
                Clause::Merge { pat, on_create, on_match } => {
                    let mut next = vec![];
                    if pat.steps.is_empty() && pat.start.labels.is_empty() {
                        self.event("merge_unlabelled_node");
                    }
                    for env in &rows {
                        let ms = self.match_all(std::slice::from_ref(pat), env)?;
                        if ms.len() > 1 {
                            self.event("merge_multi_match");
                        }
                        if ms.is_empty() {
                            let mut e = env.clone();
                            self.create_path(pat, &mut e)?;
                            self.apply_set(on_create, std::slice::from_ref(&e))?;
                            next.push(e);
                        } else {
                            self.apply_set(on_match, &ms)?;
                            next.extend(ms);
                        }
                    }
                    rows = next;
                }
                Clause::Set(items) => {
                    self.apply_set(items, &rows)?;
                }
                Clause::Remove(items) => {
                    for env in &rows {
                        for it in items {
                            match it {
                                RemoveItem::Prop(v, k) => match get(env, v) {
                                    Some(LV::Node(id)) => {
                                        if let Some(n) = self.g.nodes.get_mut(id) {
                                            n.props.remove(k);
                                        }
                                    }
                                    Some(LV::Rel(id)) => {
                                        if let Some(r) = self.g.rels.get_mut(id) {
                                            r.props.remove(k);
                                        }
                                    }
                                    Some(LV::Null) => {}
                                    _ => return unj("REMOVE on a non-entity"),
                                },
                                RemoveItem::Label(v, l) => match get(env, v) {
                                    Some(LV::Node(id)) => {
                                        if let Some(n) = self.g.nodes.get_mut(id) {
                                            n.labels.remove(l);
                                        }
                                    }
                                    Some(LV::Null) => {}
                                    _ => return unj("REMOVE label on a non-node"),
                                },
                            }
                        }
                    }
                }
                Clause::Delete { detach, vars } => {
                    let pre_rels = self.g.rels.clone();
                    for env in &rows {
                        // region bookkeeping (order independent): a row deletes a node but not all of
                        // the relationships the node had when the clause started
                        if !*detach {
                            let row_rels: Vec<u64> = vars.iter().filter_map(|v| match get(env, v) { Some(LV::Rel(r)) => Some(*r), _ => None }).collect();
                            for v in vars {
                                if let Some(LV::Node(n)) = get(env, v) {
                                    if pre_rels.iter().any(|(rid, r)| (r.src == *n || r.dst == *n) && !row_rels.contains(rid)) {
                                        self.event("delete_spans_rows");
                                    }
                                }
                            }
                        }
                        for v in vars {
                            match get(env, v) {
                                Some(LV::Node(id)) => {
                                    if *detach {
                                        let inc: Vec<u64> = self.g.rels.iter().filter(|(_, r)| r.src == *id || r.dst == *id).map(|(k, _)| *k).collect();
                                        for r in inc {
                                            self.g.rels.remove(&r);
                                        }
                                    }
                                    deleted_nodes.insert(*id);
                                }
                                Some(LV::Rel(id)) => {
                                    self.g.rels.remove(id);
                                }
                                Some(LV::Null) => {}
                                Some(LV::Path(ns, rs)) => {
                                    for r in rs {
                                        self.g.rels.remove(r);
                                    }
                                    for n in ns {
                                        if *detach {
                                            let inc: Vec<u64> = self.g.rels.iter().filter(|(_, r)| r.src == *n || r.dst == *n).map(|(k, _)| *k).collect();
                                            for r in inc {
                                                self.g.rels.remove(&r);
                                            }
                                        }
                                        deleted_nodes.insert(*n);
                                    }
                                }
                                _ => return unj("DELETE of a non-entity"),
                            }
                        }
                    }
                    // (bookkeeping for known-finding regions) the statement is only correct thanks to the
                    // statement-level check: after some row a deleted node still had relationships that
                    // other rows delete
                    // a node may only go when no relationship is left on it once the clause is done
                    for n in &deleted_nodes {
                        if self.g.rels.values().any(|r| r.src == *n || r.dst == *n) {
                            self.event("delete_connected_node");
                            return Err(EvalErr::Refuse(format!("cannot delete node {n}: it still has relationships")));
                        }
                    }
                    for n in &deleted_nodes {
                        self.g.nodes.remove(n);
                    }
                }
            }
        }
        Ok(match result {
            Some(r) => r,
            None => RefResult { no_return: true, ..Default::default() },
        })
    }

    fn create_path(&mut self, p: &PathPat, env: &mut Env) -> R<()> {
        let mut cur = self.create_or_bound_node(&p.start, env)?;
        let mut pnodes = vec![cur];
        let mut prels = vec![];
        for (rp, np) in &p.steps {
            let nxt = self.create_or_bound_node(np, env)?;
            if rp.types.len() != 1 || rp.len.is_some() {
                return Err(EvalErr::Refuse("CREATE needs exactly one relationship type".into()));
            }
            let (s, d) = match rp.dir {
                Dir::Out => (cur, nxt),
                Dir::In => (nxt, cur),
                Dir::Both => return Err(EvalErr::Refuse("CREATE needs a direction".into())),
            };
            let mut props = BTreeMap::new();
            for (k, e) in &rp.props {
                let v = self.eval(e, env)?;
                if !v.is_null() {
                    props.insert(k.clone(), v);
                }
            }
            let id = self.g.next_rel;
            self.g.next_rel += 1;
            self.g.rels.insert(id, RRel { src: s, dst: d, ty: rp.types[0].clone(), props });
            if let Some(v) = &rp.var {
                bind(env, v, LV::Rel(id));
            }
            prels.push(id);
            pnodes.push(nxt);
            cur = nxt;
        }
        if let Some(pv) = &p.pvar {
            bind(env, pv, LV::Path(pnodes, prels));
        }
        Ok(())
    }
    fn create_or_bound_node(&mut self, np: &NodePat, env: &mut Env) -> R<u64> {
        if let Some(v) = &np.var {
            if let Some(b) = get(env, v) {
                return match b {
                    LV::Node(id) => {
                        if !np.labels.is_empty() || !np.props.is_empty() {
                            return Err(EvalErr::Refuse("bound node re-declared with labels/properties".into()));
                        }
                        Ok(*id)
                    }
                    LV::Null => Err(EvalErr::Refuse("CREATE from a null node".into())),
                    _ => unj("node variable bound to a non-node"),
                };
            }
        }
        let mut props = BTreeMap::new();
        for (k, e) in &np.props {
            let v = self.eval(e, env)?;
            if !v.is_null() {
                props.insert(k.clone(), v);
            } else {
                self.event("create_null_property");
            }
        }
        let id = self.g.next_node;
        self.g.next_node += 1;
        self.g.nodes.insert(id, RNode { labels: np.labels.iter().cloned().collect(), props });
        if let Some(v) = &np.var {
            bind(env, v, LV::Node(id));
        }
        Ok(id)
    }
    fn apply_set(&mut self, items: &[SetItem], rows: &[Env]) -> R<()> {
        // the same property written with different values by different rows: the outcome depends
        // on the row order, which openCypher does not define
        let mut written: BTreeMap<(bool, u64, String), LV> = BTreeMap::new();
        for env in rows {
            for it in items {
                match it {
                    SetItem::Prop(v, k, e) => {
                        let val = self.eval(e, env)?;
                        let target = match get(env, v) {
                            Some(LV::Node(id)) => Some((true, *id, k.clone())),
                            Some(LV::Rel(id)) => Some((false, *id, k.clone())),
                            _ => None,
                        };
                        if let Some(t) = target {
                            if let Some(prev) = written.get(&t) {
                                if *prev != val {
                                    return unj("SET writes one property with different values in different rows");
                                }
                            }
                            written.insert(t, val.clone());
                        }
                        if val.is_null() {
                            self.event("set_property_to_null");
                        }
                        match get(env, v) {
                            Some(LV::Node(id)) => {
                                if let Some(n) = self.g.nodes.get_mut(id) {
                                    if val.is_null() {
                                        n.props.remove(k);
                                    } else {
                                        n.props.insert(k.clone(), val);
                                    }
                                }
                            }
                            Some(LV::Rel(id)) => {
                                if let Some(r) = self.g.rels.get_mut(id) {
                                    if val.is_null() {
                                        r.props.remove(k);
                                    } else {
                                        r.props.insert(k.clone(), val);
                                    }
                                }
                            }
                            Some(LV::Null) => {}
                            _ => return unj("SET on a non-entity"),
                        }
                    }
                    SetItem::Labels(v, ls) => match get(env, v) {
                        Some(LV::Node(id)) => {
                            if let Some(n) = self.g.nodes.get_mut(id) {
                                for l in ls {
                                    n.labels.insert(l.clone());
                                }
                            }
                        }
                        Some(LV::Null) => {}
                        _ => return unj("SET label on a non-node"),
                    },
                    SetItem::Replace(v, e) | SetItem::MergeMap(v, e) => {
                        let m = match self.eval(e, env)? {
                            LV::Map(m) => m,
                            _ => return unj("SET = / += with a non-map"),
                        };
                        let replace = matches!(it, SetItem::Replace(..));
                        let target: Option<&mut BTreeMap<String, LV>> = match get(env, v) {
                            Some(LV::Node(id)) => self.g.nodes.get_mut(id).map(|n| &mut n.props),
                            Some(LV::Rel(id)) => self.g.rels.get_mut(id).map(|r| &mut r.props),
                            Some(LV::Null) => None,
                            _ => return unj("SET on a non-entity"),
                        };
                        if let Some(t) = target {
                            if replace {
                                t.clear();
                            }
                            for (k, val) in m {
                                if val.is_null() {
                                    self.events.borrow_mut().insert("set_property_to_null".to_string());
                                    t.remove(&k);
                                } else {
                                    t.insert(k, val);
                                }
                            }
                        }
                    }
                }
            }
        }
        Ok(())
    }

    // ---------- projection ----------
    fn project(&self, p: &Proj, rows: &[Env], is_return: bool) -> R<RefResult> {
        let columns: Vec<String> = p.items.iter().map(|i| i.name()).collect();
        let unordered_list_cols: Vec<bool> = p.items.iter().map(|i| matches!(&i.expr, Expr::Agg(AggF::Collect, ..)) || matches!(&i.expr, Expr::Func(f, _) if f == "labels" || f == "keys")).collect();
        let has_agg = p.items.iter().any(|i| i.expr.has_agg());
        let mut out: Vec<Vec<LV>> = vec![];
        if has_agg {
            for i in &p.items {
                if i.expr.has_agg() && !matches!(i.expr, Expr::Agg(..)) {
                    return unj("aggregate nested in an expression");
                }
            }
            let key_idx: Vec<usize> = (0..p.items.len()).filter(|i| !p.items[*i].expr.has_agg()).collect();
            let mut groups: Vec<(Vec<LV>, Vec<&Env>)> = vec![];
            for env in rows {
                let key: Vec<LV> = key_idx.iter().map(|i| self.eval(&p.items[*i].expr, env)).collect::<R<Vec<_>>>()?;
                match groups.iter_mut().find(|(k, _)| *k == key) {
                    Some(g) => g.1.push(env),
                    None => groups.push((key, vec![env])),
                }
            }
            if groups.is_empty() && key_idx.is_empty() {
                self.event("aggregate_over_no_rows");
                groups.push((vec![], vec![]));
            }
            for (key, members) in groups {
                let mut row = vec![LV::Null; p.items.len()];
                for (j, i) in key_idx.iter().enumerate() {
                    row[*i] = key[j].clone();
                }
                for (i, it) in p.items.iter().enumerate() {
                    if let Expr::Agg(f, distinct, arg) = &it.expr {
                        row[i] = self.aggregate(f, *distinct, arg.as_deref(), &members)?;
                    }
                }
                out.push(row);
            }
        } else {
            for env in rows {
                out.push(p.items.iter().map(|i| self.eval(&i.expr, env)).collect::<R<Vec<_>>>()?);
            }
        }
        if p.distinct {
            let mut seen = BTreeSet::new();
            out.retain(|r| seen.insert(group_key(r)));
        }
        // WHERE of a WITH: over the projected columns
        if let Some(w) = &p.where_ {
            let mut kept = vec![];
            for r in out {
                let env: Env = columns.iter().cloned().zip(r.iter().cloned()).collect();
                if self.is_true(w, &env)? {
                    kept.push(r);
                }
            }
            out = kept;
        }
        // ORDER BY: keys must be projected columns (by alias or identical expression text)
        let mut order_cols = vec![];
        for (e, desc) in &p.order {
            let txt = e.print();
            match columns.iter().position(|c| *c == txt).or_else(|| p.items.iter().position(|i| i.expr.print() == txt)) {
                Some(i) => order_cols.push((i, *desc)),
                None => return unj("ORDER BY key that is not a projected column"),
            }
        }
        if !order_cols.is_empty() {
            out.sort_by(|a, b| {
                for (i, desc) in &order_cols {
                    let c = order_cmp(&a[*i], &b[*i]);
                    let c = if *desc { c.reverse() } else { c };
                    if c != std::cmp::Ordering::Equal {
                        return c;
                    }
                }
                std::cmp::Ordering::Equal
            });
        }
        let full_rows = out.clone();
        let as_usize = |e: &Option<Expr>| -> R<Option<usize>> {
            match e {
                None => Ok(None),
                Some(x) => match self.eval(x, &vec![])? {
                    LV::Int(i) if i >= 0 => Ok(Some(i as usize)),
                    LV::Int(_) => Err(EvalErr::Refuse("negative SKIP/LIMIT".into())),
                    _ => Err(EvalErr::Refuse("non-integer SKIP/LIMIT".into())),
                },
            }
        };
        let skip = as_usize(&p.skip)?;
        let limit = as_usize(&p.limit)?;
        if skip.is_some() || limit.is_some() {
            let s = skip.unwrap_or(0).min(out.len());
            let e = match limit {
                Some(l) => (s + l).min(out.len()),
                None => out.len(),
            };
            if !is_return {
                // inside a WITH the selected *set* must be determined: no tie may straddle a cut
                let key = |r: &Vec<LV>| -> Vec<LV> { order_cols.iter().map(|(i, _)| r[*i].clone()).collect() };
                // a cut is ambiguous when it falls strictly inside a group of rows with equal sort
                // keys (all rows, without ORDER BY) that are not all identical
                let cut_ambiguous = |pos: usize| {
                    if pos == 0 || pos >= out.len() {
                        return false;
                    }
                    if !order_cols.is_empty() && key(&out[pos - 1]) != key(&out[pos]) {
                        return false;
                    }
                    let k = key(&out[pos]);
                    let group: Vec<&Vec<LV>> = out.iter().filter(|r| order_cols.is_empty() || key(r) == k).collect();
                    group.iter().any(|r| **r != *group[0])
                };
                if cut_ambiguous(s) || cut_ambiguous(e) {
                    return unj("WITH … SKIP/LIMIT cuts through a tie");
                }
            }
            out = out[s..e].to_vec();
        }
        Ok(RefResult { columns, rows: out, full_rows, order_cols, skip, limit, unordered_list_cols, no_return: false })
    }

    fn aggregate(&self, f: &AggF, distinct: bool, arg: Option<&Expr>, members: &[&Env]) -> R<LV> {
        let arg = match arg {
            None => return Ok(LV::Int(members.len() as i64)),
            Some(a) => a,
        };
        let mut vals: Vec<LV> = vec![];
        for env in members {
            let v = self.eval(arg, env)?;
            if !v.is_null() {
                vals.push(v);
            }
        }
        if distinct {
            let mut seen = BTreeSet::new();
            vals.retain(|v| seen.insert(v.clone()));
        }
        Ok(match f {
            AggF::Count => LV::Int(vals.len() as i64),
            AggF::Collect => LV::List(vals),
            AggF::Sum => {
                if vals.iter().all(|v| matches!(v, LV::Int(_))) {
                    let mut s: i64 = 0;
                    for v in &vals {
                        if let LV::Int(i) = v {
                            s = match s.checked_add(*i) {
                                Some(x) => x,
                                None => return unj("sum overflow"),
                            };
                        }
                    }
                    LV::Int(s)
                } else if vals.iter().all(|v| v.is_number()) {
                    LV::f(vals.iter().map(|v| v.as_f64().unwrap()).sum())
                } else {
                    return unj("sum over non-numbers");
                }
            }
            AggF::Avg => {
                if vals.is_empty() {
                    LV::Null
                } else if vals.iter().all(|v| v.is_number()) {
                    LV::f(vals.iter().map(|v| v.as_f64().unwrap()).sum::<f64>() / vals.len() as f64)
                } else {
                    return unj("avg over non-numbers");
                }
            }
            AggF::Min | AggF::Max => {
                if vals.is_empty() {
                    LV::Null
                } else if vals.iter().all(|v| v.is_number()) || vals.iter().all(|v| matches!(v, LV::Str(_))) || vals.iter().all(|v| matches!(v, LV::Bool(_))) {
                    let mut best = vals[0].clone();
                    for v in &vals[1..] {
                        let c = compare(v, &best).unwrap();
                        if (*f == AggF::Min && c.is_lt()) || (*f == AggF::Max && c.is_gt()) {
                            best = v.clone();
                        }
                    }
                    best
                } else {
                    return unj("min/max over mixed types");
                }
            }
        })
    }
}
