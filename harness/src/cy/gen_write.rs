//! Write-statement alphabet for C04 / C05 / C35 (built as ASTs so engine text and reference share one source).
#![allow(dead_code)]
use super::ast::*;
use svmc::model::graph::RefGraph;
use svmc::model::values::LV;

fn n(v: &str) -> NodePat {
    NodePat::v(v)
}
fn r(dir: Dir) -> RelPat {
    RelPat::new(dir)
}
fn m(pats: Vec<PathPat>) -> Clause {
    Clause::Match { optional: false, pats, where_: None }
}
fn pp(start: NodePat) -> PathPat {
    PathPat::node(start)
}
fn item(e: Expr, alias: Option<&str>) -> Item {
    Item { expr: e, alias: alias.map(|s| s.to_string()) }
}
fn ret(items: Vec<Item>) -> Clause {
    Clause::Return(Proj { items, ..Default::default() })
}
fn count_star() -> Item {
    item(Expr::Agg(AggF::Count, false, None), Some("c"))
}
fn add(a: Expr, b: Expr) -> Expr {
    Expr::Arith(ArOp::Add, Box::new(a), Box::new(b))
}
fn unwind(vals: Vec<Expr>, v: &str) -> Clause {
    Clause::Unwind { list: Expr::List(vals), var: v.to_string() }
}

pub struct Stmt {
    pub name: &'static str,
    pub q: Query,
}

pub fn statements() -> Vec<Stmt> {
    let mut s: Vec<Stmt> = vec![];
    let mut add_s = |name: &'static str, clauses: Vec<Clause>| s.push(Stmt { name, q: Query::new(clauses) });
    let null = || Expr::Lit(LV::Null);
    // ---- CREATE
    add_s("create_A_p1", vec![Clause::Create(vec![pp(n("n").l("A").p("p", lit_i(1)))])]);
    add_s("create_B", vec![Clause::Create(vec![pp(n("n").l("B"))])]);
    add_s("create_nolabel", vec![Clause::Create(vec![pp(n("n"))])]);
    add_s("create_AB_ret", vec![Clause::Create(vec![pp(n("n").l("A").l("B").p("p", lit_i(2)))]), ret(vec![item(prop("n", "p"), None)])]);
    add_s("create_path", vec![Clause::Create(vec![pp(n("a").l("A").p("p", lit_i(1))).step(r(Dir::Out).t("R").p("w", lit_i(1)), n("b").l("B").p("p", lit_i(2)))])]);
    add_s("create_path_in", vec![Clause::Create(vec![pp(n("a").l("A")).step(r(Dir::In).t("S"), n("b").l("B"))])]);
    add_s("create_two_paths", vec![Clause::Create(vec![pp(n("a").l("A")).step(r(Dir::Out).t("R"), n("b").l("B")), pp(n("b")).step(r(Dir::Out).t("S"), n("a"))])]);
    add_s("create_null_prop", vec![Clause::Create(vec![pp(n("n").l("A").p("p", null()))])]);
    add_s("match_create_edge", vec![m(vec![pp(n("a").l("A")), pp(n("b").l("B"))]), Clause::Create(vec![pp(n("a")).step(r(Dir::Out).t("R"), n("b"))])]);
    add_s("match_create_derived", vec![m(vec![pp(n("a").l("A"))]), Clause::Create(vec![pp(n("a")).step(r(Dir::Out).t("S").p("w", prop("a", "p")), n("c").l("B").p("p", prop("a", "p")))])]);
    add_s("match_create_self", vec![m(vec![pp(n("a").l("A"))]), Clause::Create(vec![pp(n("a")).step(r(Dir::Out).t("R"), n("a"))])]);
    add_s("unwind_create", vec![unwind(vec![lit_i(1), lit_i(2)], "x"), Clause::Create(vec![pp(n("n").l("A").p("p", var("x")))])]);
    add_s("unwind_create_count", vec![unwind(vec![lit_i(1), lit_i(1)], "x"), Clause::Create(vec![pp(n("n").l("B").p("p", var("x")))]), ret(vec![count_star()])]);
    add_s("unwind_create_ret", vec![unwind(vec![lit_i(1), lit_i(2)], "x"), Clause::Create(vec![pp(n("n").l("B").p("p", add(var("x"), lit_i(1))))]), ret(vec![item(prop("n", "p"), None)])]);
    // ---- MERGE
    add_s("merge_A_p1", vec![Clause::Merge { pat: pp(n("n").l("A").p("p", lit_i(1))), on_create: vec![], on_match: vec![] }]);
    add_s("merge_nolabel_p1", vec![Clause::Merge { pat: pp(n("n").p("p", lit_i(1))), on_create: vec![], on_match: vec![] }]);
    add_s("merge_B", vec![Clause::Merge { pat: pp(n("n").l("B")), on_create: vec![], on_match: vec![] }, ret(vec![count_star()])]);
    add_s(
        "merge_on_create_match",
        vec![Clause::Merge { pat: pp(n("n").l("A").p("p", lit_i(1))), on_create: vec![SetItem::Prop("n".into(), "q".into(), lit_i(1))], on_match: vec![SetItem::Prop("n".into(), "q".into(), lit_i(2))] }],
    );
    add_s("unwind_merge", vec![unwind(vec![lit_i(1), lit_i(1), lit_i(2)], "x"), Clause::Merge { pat: pp(n("n").l("A").p("p", var("x"))), on_create: vec![], on_match: vec![] }]);
    add_s("unwind_merge_ret", vec![unwind(vec![lit_i(2), lit_i(2)], "x"), Clause::Merge { pat: pp(n("n").l("B").p("p", var("x"))), on_create: vec![], on_match: vec![] }, ret(vec![item(prop("n", "p"), None)])]);
    add_s("match_merge_rel", vec![m(vec![pp(n("a").l("A")), pp(n("b").l("B"))]), Clause::Merge { pat: pp(n("a")).step(r(Dir::Out).v("r").t("R"), n("b")), on_create: vec![], on_match: vec![] }]);
    add_s(
        "match_merge_rel_on",
        vec![
            m(vec![pp(n("a").l("A")), pp(n("b").l("B"))]),
            Clause::Merge { pat: pp(n("a")).step(r(Dir::Out).v("r").t("S"), n("b")), on_create: vec![SetItem::Prop("r".into(), "w".into(), lit_i(1))], on_match: vec![SetItem::Prop("r".into(), "w".into(), lit_i(2))] },
        ],
    );
    add_s("merge_path_new", vec![Clause::Merge { pat: pp(n("a").l("A").p("p", lit_i(1))).step(r(Dir::Out).t("R"), n("b").l("B").p("p", lit_i(2))), on_create: vec![], on_match: vec![] }]);
    // ---- SET
    add_s("set_p2", vec![m(vec![pp(n("n").l("A"))]), Clause::Set(vec![SetItem::Prop("n".into(), "p".into(), lit_i(2))])]);
    add_s("set_null", vec![m(vec![pp(n("n").l("A"))]), Clause::Set(vec![SetItem::Prop("n".into(), "p".into(), null())])]);
    add_s("set_expr", vec![m(vec![pp(n("n").l("A"))]), Clause::Set(vec![SetItem::Prop("n".into(), "q".into(), add(prop("n", "p"), lit_i(1)))])]);
    add_s("set_from_other", vec![m(vec![pp(n("a").l("A")), pp(n("b").l("B"))]), Clause::Set(vec![SetItem::Prop("a".into(), "q".into(), prop("b", "p"))])]);
    add_s("set_label", vec![m(vec![pp(n("n").l("A"))]), Clause::Set(vec![SetItem::Labels("n".into(), vec!["B".into()])])]);
    add_s("set_replace", vec![m(vec![pp(n("n").l("A"))]), Clause::Set(vec![SetItem::Replace("n".into(), Expr::Map(vec![("p".into(), lit_i(3))]))])]);
    add_s("set_merge_map", vec![m(vec![pp(n("n").l("A"))]), Clause::Set(vec![SetItem::MergeMap("n".into(), Expr::Map(vec![("q".into(), lit_i(1)), ("p".into(), null())]))])]);
    add_s("set_rel_prop", vec![m(vec![pp(n("a")).step(r(Dir::Out).v("r").t("R"), n("b"))]), Clause::Set(vec![SetItem::Prop("r".into(), "w".into(), lit_i(2))])]);
    add_s("set_ret", vec![m(vec![pp(n("n").l("A"))]), Clause::Set(vec![SetItem::Prop("n".into(), "p".into(), lit_i(2))]), ret(vec![item(prop("n", "p"), None)])]);
    add_s("set_div_zero", vec![m(vec![pp(n("n").l("A"))]), Clause::Set(vec![SetItem::Prop("n".into(), "z".into(), Expr::Arith(ArOp::Div, Box::new(lit_i(1)), Box::new(lit_i(0))))])]);
    add_s("set_two_items", vec![m(vec![pp(n("n").l("B"))]), Clause::Set(vec![SetItem::Prop("n".into(), "p".into(), lit_i(1)), SetItem::Prop("n".into(), "q".into(), lit_i(2))])]);
    // ---- REMOVE
    add_s("remove_p", vec![m(vec![pp(n("n").l("A"))]), Clause::Remove(vec![RemoveItem::Prop("n".into(), "p".into())])]);
    add_s("remove_label", vec![m(vec![pp(n("n").l("A"))]), Clause::Remove(vec![RemoveItem::Label("n".into(), "A".into())])]);
    add_s("remove_absent_label", vec![m(vec![pp(n("n").l("B"))]), Clause::Remove(vec![RemoveItem::Label("n".into(), "A".into())])]);
    add_s("remove_rel_prop", vec![m(vec![pp(n("a")).step(r(Dir::Out).v("r"), n("b"))]), Clause::Remove(vec![RemoveItem::Prop("r".into(), "w".into())])]);
    // ---- DELETE
    add_s("delete_rel", vec![m(vec![pp(n("a")).step(r(Dir::Out).v("r").t("R"), n("b"))]), Clause::Delete { detach: false, vars: vec!["r".into()] }]);
    add_s("delete_A", vec![m(vec![pp(n("n").l("A"))]), Clause::Delete { detach: false, vars: vec!["n".into()] }]);
    add_s("delete_B", vec![m(vec![pp(n("n").l("B"))]), Clause::Delete { detach: false, vars: vec!["n".into()] }]);
    add_s("detach_delete_A", vec![m(vec![pp(n("n").l("A"))]), Clause::Delete { detach: true, vars: vec!["n".into()] }]);
    add_s("detach_delete_all", vec![m(vec![pp(n("n"))]), Clause::Delete { detach: true, vars: vec!["n".into()] }]);
    add_s("delete_rel_then_node", vec![m(vec![pp(n("a").l("A")).step(r(Dir::Out).v("r"), n("b"))]), Clause::Delete { detach: false, vars: vec!["r".into(), "a".into()] }]);
    add_s("delete_node_then_rel", vec![m(vec![pp(n("a")).step(r(Dir::Out).v("r"), n("b").l("B"))]), Clause::Delete { detach: false, vars: vec!["b".into(), "r".into()] }]);
    add_s("delete_count", vec![m(vec![pp(n("n").l("B"))]), Clause::Delete { detach: true, vars: vec!["n".into()] }, ret(vec![count_star()])]);
    // ---- WITH
    add_s(
        "with_where_set",
        vec![m(vec![pp(n("n").l("A"))]), Clause::With(Proj { items: vec![item(var("n"), None)], where_: Some(Expr::Cmp(CmpOp::Eq, Box::new(prop("n", "p")), Box::new(lit_i(1)))), ..Default::default() }), Clause::Set(vec![SetItem::Prop("n".into(), "q".into(), lit_i(5))])],
    );
    add_s("with_count_create", vec![m(vec![pp(n("n").l("A"))]), Clause::With(Proj { items: vec![item(Expr::Agg(AggF::Count, false, Some(Box::new(var("n")))), Some("c"))], ..Default::default() }), Clause::Create(vec![pp(n("m").l("B").p("p", var("c")))])]);
    s
}

/// Start graphs for the write checks (small, hand-enumerated family covering: empty, isolated
/// nodes of each kind, a connected pair, parallel relationships, a self-loop).
pub fn start_graphs() -> Vec<(&'static str, RefGraph)> {
    let mut out = vec![];
    out.push(("empty", RefGraph::new()));
    let mut g = RefGraph::new();
    g.add_node(&["A"], &[("p", LV::Int(1))]);
    out.push(("A1", g));
    let mut g = RefGraph::new();
    g.add_node(&["A"], &[("p", LV::Int(1))]);
    g.add_node(&["B"], &[("p", LV::Int(2))]);
    out.push(("A1_B2", g));
    let mut g = RefGraph::new();
    let a = g.add_node(&["A"], &[("p", LV::Int(1))]);
    let b = g.add_node(&["B"], &[("p", LV::Int(2))]);
    g.add_rel(a, b, "R", &[("w", LV::Int(1))]);
    out.push(("A1-R->B2", g));
    let mut g = RefGraph::new();
    let a = g.add_node(&["A"], &[("p", LV::Int(1))]);
    let b = g.add_node(&["B"], &[]);
    g.add_rel(a, b, "R", &[]);
    g.add_rel(a, b, "S", &[]);
    out.push(("A1=RS=>B", g));
    let mut g = RefGraph::new();
    let a = g.add_node(&["A", "B"], &[("p", LV::Int(1))]);
    g.add_rel(a, a, "R", &[]);
    out.push(("AB1_loop", g));
    let mut g = RefGraph::new();
    g.add_node(&["A"], &[("p", LV::Int(1))]);
    g.add_node(&["A"], &[("p", LV::Int(2))]);
    g.add_node(&[], &[("p", LV::Int(1))]);
    out.push(("A1_A2_n1", g));
    out
}
