//! Violation signatures for the Cypher checks: (region predicate over the case) + (symptom class).
#![allow(dead_code)]
use super::ast::*;
use std::collections::BTreeSet;
use svmc::model::graph::RefGraph;

fn expr_tags(e: &Expr, tags: &mut BTreeSet<String>) {
    match e {
        Expr::Agg(f, d, a) => {
            tags.insert(format!("agg_{}{}", format!("{:?}", f).to_lowercase(), if *d { "_distinct" } else { "" }));
            if let Some(a) = a {
                expr_tags(a, tags);
            } else {
                tags.insert("count_star".into());
            }
        }
        Expr::Cmp(_, a, b) | Expr::And(a, b) | Expr::Or(a, b) | Expr::In(a, b) | Expr::StrOp(_, a, b) | Expr::Arith(_, a, b) => {
            expr_tags(a, tags);
            expr_tags(b, tags);
        }
        Expr::Xor(a, b) => {
            tags.insert("xor".into());
            expr_tags(a, tags);
            expr_tags(b, tags);
        }
        Expr::Not(a) | Expr::IsNull(a, _) => expr_tags(a, tags),
        Expr::List(l) => l.iter().for_each(|x| expr_tags(x, tags)),
        Expr::Func(f, l) => {
            tags.insert(format!("fn_{f}"));
            l.iter().for_each(|x| expr_tags(x, tags));
        }
        Expr::Map(m) => m.iter().for_each(|(_, x)| expr_tags(x, tags)),
        Expr::Case(a, b, c) => {
            tags.insert("case".into());
            expr_tags(a, tags);
            expr_tags(b, tags);
            expr_tags(c, tags);
        }
        Expr::Param(_) => {
            tags.insert("param".into());
        }
        _ => {}
    }
}

/// Coarse, purely syntactic shape of a query: the set of constructs it uses.
pub fn shape_tags(q: &Query) -> BTreeSet<String> {
    let mut t = BTreeSet::new();
    let mut n_match = 0;
    for c in &q.clauses {
        match c {
            Clause::Match { optional, pats, where_ } => {
                n_match += 1;
                if *optional {
                    t.insert("optional".into());
                }
                let rels: usize = pats.iter().map(|p| p.steps.len()).sum();
                if pats.len() > 1 {
                    t.insert(if rels >= 2 { "comma_rels".into() } else { "comma".to_string() });
                }
                for p in pats {
                    if p.pvar.is_some() {
                        t.insert("path".into());
                    }
                    match p.kind {
                        PathKind::Shortest => {
                            t.insert("shortest".into());
                        }
                        PathKind::AllShortest => {
                            t.insert("allshortest".into());
                        }
                        _ => {}
                    }
                    let mut seen: Vec<&str> = vec![];
                    let mut all_nodes = vec![&p.start];
                    all_nodes.extend(p.steps.iter().map(|s| &s.1));
                    for n in all_nodes {
                        if n.labels.len() >= 2 {
                            t.insert("multilabel".into());
                        }
                        if !n.props.is_empty() {
                            t.insert("node_inline_prop".into());
                        }
                        if let Some(v) = &n.var {
                            if seen.contains(&v.as_str()) {
                                t.insert("repeated_node_var".into());
                            }
                            seen.push(v);
                        }
                    }
                    if p.steps.len() >= 2 {
                        t.insert("multi_hop".into());
                    }
                    for (r, _) in &p.steps {
                        if r.len.is_some() {
                            t.insert("varlen".into());
                            if matches!(r.len, Some((Some(0), _))) {
                                t.insert("varlen_zero".into());
                            }
                        }
                        if r.dir == Dir::Both {
                            t.insert("undirected".into());
                        }
                        if !r.props.is_empty() {
                            t.insert("rel_inline_prop".into());
                        }
                        if r.types.len() > 1 {
                            t.insert("type_alt".into());
                        }
                    }
                }
                if let Some(w) = where_ {
                    t.insert("where".into());
                    expr_tags(w, &mut t);
                }
            }
            Clause::Unwind { .. } => {
                t.insert("unwind".into());
            }
            Clause::With(p) | Clause::Return(p) => {
                if matches!(c, Clause::With(_)) {
                    t.insert("with".into());
                }
                if p.distinct {
                    t.insert("distinct".into());
                }
                if !p.order.is_empty() {
                    t.insert("order".into());
                }
                if p.skip.is_some() {
                    t.insert("skip".into());
                }
                if p.limit.is_some() {
                    t.insert("limit".into());
                }
                let has_agg = p.items.iter().any(|i| i.expr.has_agg());
                if has_agg && p.items.iter().any(|i| !i.expr.has_agg()) {
                    t.insert("group".into());
                }
                for i in &p.items {
                    expr_tags(&i.expr, &mut t);
                }
                if let Some(w) = &p.where_ {
                    expr_tags(w, &mut t);
                }
            }
            Clause::Create(_) => {
                t.insert("create".into());
            }
            Clause::Merge { .. } => {
                t.insert("merge".into());
            }
            Clause::Set(_) => {
                t.insert("set".into());
            }
            Clause::Remove(_) => {
                t.insert("remove".into());
            }
            Clause::Delete { detach, .. } => {
                t.insert(if *detach { "detach_delete".into() } else { "delete".to_string() });
            }
        }
    }
    if n_match >= 2 {
        t.insert("multi_match".into());
    }
    if q.union.is_some() {
        t.insert("union".into());
    }
    t
}
pub fn shape(q: &Query) -> String {
    shape_tags(q).into_iter().collect::<Vec<_>>().join("+")
}

/// Signature of a read-query mismatch. Region = syntactic shape of the query (+ graph traits
/// where a known defect depends on them); symptom = class of difference.
pub fn signature(q: &Query, _g: &RefGraph, symptom: &str, _detail: &str) -> String {
    if let Some(names) = symptom.strip_prefix("quirk:") {
        // region: the query uses the construct and the graph makes the two semantics differ;
        // symptom: the engine's rows are exactly those of the documented deviation
        return format!("deviation:{}", names.split('(').next().unwrap_or(names));
    }
    format!("{}|{}", shape(q), symptom)
}
