//! Bounded-exhaustive generators: small property graphs and read queries of the typed grammar.
#![allow(dead_code)]
use super::ast::*;
use std::collections::BTreeSet;
use svmc::model::graph::{canonical, RefGraph};
use svmc::model::values::LV;

pub struct GraphSpace {
    pub max_nodes: usize,
    pub max_rels: usize,
    /// node kinds: (labels, p value)
    pub node_kinds: Vec<(Vec<&'static str>, Option<LV>)>,
    /// relationship kinds: (type, w value)
    pub rel_kinds: Vec<(&'static str, Option<LV>)>,
}

fn kinds5() -> Vec<(Vec<&'static str>, Option<LV>)> {
    vec![(vec![], None), (vec!["A"], Some(LV::Int(1))), (vec!["B"], Some(LV::Int(2))), (vec!["A", "B"], Some(LV::Int(1))), (vec!["A"], Some(LV::s("x")))]
}
fn rel3() -> Vec<(&'static str, Option<LV>)> {
    vec![("R", None), ("R", Some(LV::Int(1))), ("S", None)]
}

impl GraphSpace {
    /// <= 2 nodes, <= 2 relationships
    pub fn small() -> Self {
        GraphSpace { max_nodes: 2, max_rels: 2, node_kinds: kinds5(), rel_kinds: rel3() }
    }
    /// mixed integer / float property values for the aggregating queries: <= 3 nodes, <= 3 :R
    /// relationships (a partial sum that turns float half-way needs a node with two neighbours, a
    /// second node with the same key needs one more: 3 nodes, 3 relationships with self-loops)
    pub fn numeric() -> Self {
        GraphSpace { max_nodes: 3, max_rels: 3, node_kinds: vec![(vec!["A"], Some(LV::Int(1))), (vec!["A"], Some(LV::f(2.5))), (vec!["B"], Some(LV::f(2.5)))], rel_kinds: vec![("R", None)] }
    }
    /// <= 3 nodes, <= 2 relationships
    pub fn wide() -> Self {
        GraphSpace { max_nodes: 3, max_rels: 2, node_kinds: kinds5(), rel_kinds: rel3() }
    }
    /// <= 2 nodes, <= 3 relationships
    pub fn dense() -> Self {
        GraphSpace { max_nodes: 2, max_rels: 3, node_kinds: kinds5(), rel_kinds: rel3() }
    }
    pub fn describe(&self) -> String {
        format!(
            "<= {} nodes of kinds {:?}, <= {} relationships of kinds {:?} (any ordered pair incl. self-loops and parallel), up to node relabelling",
            self.max_nodes,
            self.node_kinds.iter().map(|(l, p)| format!("{}{}", l.iter().map(|x| format!(":{x}")).collect::<String>(), p.as_ref().map(|v| format!("{{p:{}}}", v.lit())).unwrap_or_default())).collect::<Vec<_>>(),
            self.max_rels,
            self.rel_kinds.iter().map(|(t, w)| format!(":{t}{}", w.as_ref().map(|v| format!("{{w:{}}}", v.lit())).unwrap_or_default())).collect::<Vec<_>>()
        )
    }
}

/// All graphs of the space up to node relabelling (deduplicated on the canonical form).
/// Returns (graphs, raw_count_before_dedup).
pub fn enumerate_graphs(sp: &GraphSpace) -> (Vec<RefGraph>, u64) {
    use svmc::engine::odometer::multisets;
    let node_kinds = &sp.node_kinds;
    let mut out = vec![];
    let mut seen = BTreeSet::new();
    let mut raw = 0u64;
    for n in 0..=sp.max_nodes {
        for nk in multisets(node_kinds.len(), n) {
            let mut rel_kinds: Vec<(u64, u64, &str, Option<LV>)> = vec![];
            for s in 1..=n as u64 {
                for d in 1..=n as u64 {
                    for (t, w) in &sp.rel_kinds {
                        rel_kinds.push((s, d, t, w.clone()));
                    }
                }
            }
            for m in 0..=sp.max_rels {
                if rel_kinds.is_empty() && m > 0 {
                    continue;
                }
                for rk in multisets(rel_kinds.len(), m) {
                    raw += 1;
                    let mut g = RefGraph::new();
                    for k in &nk {
                        let (l, p) = &node_kinds[*k];
                        let mut props: Vec<(&str, LV)> = vec![];
                        if let Some(p) = p {
                            props.push(("p", p.clone()));
                        }
                        g.add_node(l, &props);
                    }
                    for k in &rk {
                        let (s, d, t, w) = &rel_kinds[*k];
                        let props: Vec<(&str, LV)> = w.iter().map(|w| ("w", w.clone())).collect();
                        g.add_rel(*s, *d, t, &props);
                    }
                    if seen.insert(canonical(&g)) {
                        out.push(g);
                    }
                }
            }
        }
    }
    (out, raw)
}

// ---------------------------------------------------------------------------
// queries

#[derive(Clone, Debug, Default)]
pub struct Tmpl {
    pub name: &'static str,
    pub clauses: Vec<Clause>,
    pub nodes: Vec<&'static str>,
    /// single-relationship variables
    pub rels: Vec<&'static str>,
    pub path: Option<&'static str>,
    /// shortestPath: which path is returned is free, only length/end points are comparable
    pub shortest: bool,
    /// extra scalar variables (from UNWIND)
    pub scalars: Vec<&'static str>,
}

fn n(v: &str) -> NodePat {
    NodePat::v(v)
}
fn r(dir: Dir) -> RelPat {
    RelPat::new(dir)
}
fn m(pats: Vec<PathPat>) -> Clause {
    Clause::Match { optional: false, pats, where_: None }
}
fn om(pats: Vec<PathPat>, w: Option<Expr>) -> Clause {
    Clause::Match { optional: true, pats, where_: w }
}
fn pp(start: NodePat) -> PathPat {
    PathPat::node(start)
}

pub fn templates(thorough: bool) -> Vec<Tmpl> {
    let mut t: Vec<Tmpl> = vec![];
    let mut add = |name: &'static str, clauses: Vec<Clause>, nodes: Vec<&'static str>, rels: Vec<&'static str>, path: Option<&'static str>| {
        t.push(Tmpl { name, clauses, nodes, rels, path, shortest: false, scalars: vec![] });
    };
    // --- node scans
    add("scan", vec![m(vec![pp(n("a"))])], vec!["a"], vec![], None);
    add("scan_A", vec![m(vec![pp(n("a").l("A"))])], vec!["a"], vec![], None);
    add("scan_B", vec![m(vec![pp(n("a").l("B"))])], vec!["a"], vec![], None);
    add("scan_AB", vec![m(vec![pp(n("a").l("A").l("B"))])], vec!["a"], vec![], None);
    add("scan_BA", vec![m(vec![pp(n("a").l("B").l("A"))])], vec!["a"], vec![], None);
    add("scan_p1", vec![m(vec![pp(n("a").p("p", lit_i(1)))])], vec!["a"], vec![], None);
    add("scan_A_p1", vec![m(vec![pp(n("a").l("A").p("p", lit_i(1)))])], vec!["a"], vec![], None);
    add("scan_A_px", vec![m(vec![pp(n("a").l("A").p("p", lit_s("x")))])], vec!["a"], vec![], None);
    // --- one hop: direction x types
    for (dn, d) in [("out", Dir::Out), ("in", Dir::In), ("both", Dir::Both)] {
        for (tn, types) in [("any", vec![]), ("R", vec!["R"]), ("RS", vec!["R", "S"])] {
            let mut rp = r(d.clone()).v("r");
            for ty in &types {
                rp = rp.t(ty);
            }
            let name: &'static str = Box::leak(format!("hop_{dn}_{tn}").into_boxed_str());
            add(name, vec![m(vec![pp(n("a")).step(rp, n("b"))])], vec!["a", "b"], vec!["r"], None);
        }
    }
    add("hop_A_R_B", vec![m(vec![pp(n("a").l("A")).step(r(Dir::Out).v("r").t("R"), n("b").l("B"))])], vec!["a", "b"], vec!["r"], None);
    add("hop_A_R", vec![m(vec![pp(n("a").l("A")).step(r(Dir::Out).v("r").t("R"), n("b"))])], vec!["a", "b"], vec!["r"], None);
    add("hop_R_B", vec![m(vec![pp(n("a")).step(r(Dir::Out).v("r").t("R"), n("b").l("B"))])], vec!["a", "b"], vec!["r"], None);
    add("hop_AB_any", vec![m(vec![pp(n("a").l("A").l("B")).step(r(Dir::Out).v("r"), n("b"))])], vec!["a", "b"], vec!["r"], None);
    add("hop_any_AB", vec![m(vec![pp(n("a")).step(r(Dir::Out).v("r"), n("b").l("A").l("B"))])], vec!["a", "b"], vec!["r"], None);
    add("hop_w1", vec![m(vec![pp(n("a")).step(r(Dir::Out).v("r").p("w", lit_i(1)), n("b"))])], vec!["a", "b"], vec!["r"], None);
    add("hop_R_w1", vec![m(vec![pp(n("a")).step(r(Dir::Out).v("r").t("R").p("w", lit_i(1)), n("b"))])], vec!["a", "b"], vec!["r"], None);
    add("hop_both_w1", vec![m(vec![pp(n("a")).step(r(Dir::Both).v("r").p("w", lit_i(1)), n("b"))])], vec!["a", "b"], vec!["r"], None);
    add("hop_R_bp1", vec![m(vec![pp(n("a")).step(r(Dir::Out).v("r").t("R"), n("b").p("p", lit_i(1)))])], vec!["a", "b"], vec!["r"], None);
    add("hop_A_R_Bp1", vec![m(vec![pp(n("a").l("A")).step(r(Dir::Out).v("r").t("R"), n("b").l("B").p("p", lit_i(1)))])], vec!["a", "b"], vec!["r"], None);
    add("hop_ap1_in", vec![m(vec![pp(n("a").p("p", lit_i(1))).step(r(Dir::In).v("r"), n("b"))])], vec!["a", "b"], vec!["r"], None);
    // self / anonymous
    add("self_R", vec![m(vec![pp(n("a")).step(r(Dir::Out).v("r").t("R"), n("a"))])], vec!["a"], vec!["r"], None);
    add("self_both", vec![m(vec![pp(n("a")).step(r(Dir::Both).v("r"), n("a"))])], vec!["a"], vec!["r"], None);
    add("anon_R", vec![m(vec![pp(NodePat::anon()).step(r(Dir::Out).v("r").t("R"), NodePat::anon())])], vec![], vec!["r"], None);
    add("anon_R_w1", vec![m(vec![pp(NodePat::anon()).step(r(Dir::Out).v("r").t("R").p("w", lit_i(1)), NodePat::anon())])], vec![], vec!["r"], None);
    add("anon_any", vec![m(vec![pp(NodePat::anon()).step(r(Dir::Out).v("r"), NodePat::anon())])], vec![], vec!["r"], None);
    add("anon_both", vec![m(vec![pp(NodePat::anon()).step(r(Dir::Both).v("r"), NodePat::anon())])], vec![], vec!["r"], None);
    // --- variable length
    let vl: Vec<(&'static str, Option<u32>, Option<u32>)> = vec![("star", None, None), ("0to1", Some(0), Some(1)), ("1to2", Some(1), Some(2)), ("x2", Some(2), Some(2)), ("0up", Some(0), None)];
    for (ln, lo, hi) in &vl {
        let name: &'static str = Box::leak(format!("vl_{ln}").into_boxed_str());
        add(name, vec![m(vec![pp(n("a")).step(r(Dir::Out).range(*lo, *hi), n("b"))])], vec!["a", "b"], vec![], None);
        let name: &'static str = Box::leak(format!("vl_R_{ln}").into_boxed_str());
        add(name, vec![m(vec![pp(n("a")).step(r(Dir::Out).t("R").range(*lo, *hi), n("b"))])], vec!["a", "b"], vec![], None);
    }
    add("vl_both_1to2", vec![m(vec![pp(n("a")).step(r(Dir::Both).range(Some(1), Some(2)), n("b"))])], vec!["a", "b"], vec![], None);
    add("vl_in_star", vec![m(vec![pp(n("a")).step(r(Dir::In).range(None, None), n("b"))])], vec!["a", "b"], vec![], None);
    add("vl_A_star_B", vec![m(vec![pp(n("a").l("A")).step(r(Dir::Out).range(None, None), n("b").l("B"))])], vec!["a", "b"], vec![], None);
    add("vl_path_1to2", vec![m(vec![pp(n("a")).step(r(Dir::Out).range(Some(1), Some(2)), n("b")).named("p")])], vec!["a", "b"], vec![], Some("p"));
    add("vl_path_0to1", vec![m(vec![pp(n("a")).step(r(Dir::Out).range(Some(0), Some(1)), n("b")).named("p")])], vec!["a", "b"], vec![], Some("p"));
    add("vl_then_hop", vec![m(vec![pp(n("a")).step(r(Dir::Out).range(Some(1), Some(2)), n("b")).step(r(Dir::Out).v("r"), n("c"))])], vec!["a", "b", "c"], vec!["r"], None);
    // --- two hops
    add("two_out", vec![m(vec![pp(n("a")).step(r(Dir::Out).v("r"), n("b")).step(r(Dir::Out).v("s"), n("c"))])], vec!["a", "b", "c"], vec!["r", "s"], None);
    add("two_R_in_R", vec![m(vec![pp(n("a")).step(r(Dir::Out).v("r").t("R"), n("b")).step(r(Dir::In).v("s").t("R"), n("c"))])], vec!["a", "b", "c"], vec!["r", "s"], None);
    add("two_both", vec![m(vec![pp(n("a")).step(r(Dir::Both).v("r"), n("b")).step(r(Dir::Both).v("s"), n("c"))])], vec!["a", "b", "c"], vec!["r", "s"], None);
    add("two_cycle", vec![m(vec![pp(n("a")).step(r(Dir::Out).v("r"), n("b")).step(r(Dir::Out).v("s"), n("a"))])], vec!["a", "b"], vec!["r", "s"], None);
    add("two_path", vec![m(vec![pp(n("a")).step(r(Dir::Out).v("r"), n("b")).step(r(Dir::Out).v("s"), n("c")).named("p")])], vec!["a", "b", "c"], vec!["r", "s"], Some("p"));
    add("hop_path", vec![m(vec![pp(n("a")).step(r(Dir::Out).v("r"), n("b")).named("p")])], vec!["a", "b"], vec!["r"], Some("p"));
    // the most selective node is the MIDDLE one: the planner anchors there and walks one hop
    // backward and one forward; relationship isomorphism must hold across the anchor
    // (seeded change C01 broke exactly this and was invisible with first-node anchors)
    add("two_mid_B_und", vec![m(vec![pp(n("a")).step(r(Dir::Both).v("r"), n("b").l("B")).step(r(Dir::Both).v("s"), n("c"))])], vec!["a", "b", "c"], vec!["r", "s"], None);
    add("two_mid_B_out", vec![m(vec![pp(n("a")).step(r(Dir::Out).v("r"), n("b").l("B")).step(r(Dir::Out).v("s"), n("c"))])], vec!["a", "b", "c"], vec!["r", "s"], None);
    add("two_mid_p2_und", vec![m(vec![pp(n("a")).step(r(Dir::Both).v("r"), n("b").p("p", lit_i(2))).step(r(Dir::Both).v("s"), n("c"))])], vec!["a", "b", "c"], vec!["r", "s"], None);
    add("two_mid_AB_und_R", vec![m(vec![pp(n("a").l("A")).step(r(Dir::Both).v("r").t("R"), n("b").l("A").l("B")).step(r(Dir::Both).v("s").t("R"), n("c").l("A"))])], vec!["a", "b", "c"], vec!["r", "s"], None);
    add("two_end_B_und", vec![m(vec![pp(n("a")).step(r(Dir::Both).v("r"), n("b")).step(r(Dir::Both).v("s"), n("c").l("B"))])], vec!["a", "b", "c"], vec!["r", "s"], None);
    add("mm_then_mid_B", vec![m(vec![pp(n("x")).step(r(Dir::Out).v("q"), n("b").l("B"))]), m(vec![pp(n("a")).step(r(Dir::Both).v("r"), n("b")).step(r(Dir::Both).v("s"), n("c"))])], vec!["a", "b", "c"], vec!["r", "s"], None);
    // --- comma patterns (relationship isomorphism across the clause)
    add("comma_nodes", vec![m(vec![pp(n("a")), pp(n("b"))])], vec!["a", "b"], vec![], None);
    add("comma_A_B", vec![m(vec![pp(n("a").l("A")), pp(n("b").l("B"))])], vec!["a", "b"], vec![], None);
    add("comma_two_hops", vec![m(vec![pp(n("a")).step(r(Dir::Out).v("r"), n("b")), pp(n("c")).step(r(Dir::Out).v("s"), n("d"))])], vec!["a", "b", "c", "d"], vec!["r", "s"], None);
    add("comma_chain", vec![m(vec![pp(n("a")).step(r(Dir::Out).v("r"), n("b")), pp(n("b")).step(r(Dir::Out).v("s"), n("c"))])], vec!["a", "b", "c"], vec!["r", "s"], None);
    add("comma_fan", vec![m(vec![pp(n("a")).step(r(Dir::Out).v("r").t("R"), n("b")), pp(n("a")).step(r(Dir::Out).v("s").t("R"), n("c"))])], vec!["a", "b", "c"], vec!["r", "s"], None);
    // --- triangles (ExpandInto / LeapFrog)
    add("tri_open", vec![m(vec![pp(n("a")).step(r(Dir::Out).v("r"), n("b")).step(r(Dir::Out).v("s"), n("c")), pp(n("a")).step(r(Dir::Out).v("t"), n("c"))])], vec!["a", "b", "c"], vec!["r", "s"], None);
    add("tri_R", vec![m(vec![pp(n("a")).step(r(Dir::Out).t("R"), n("b")).step(r(Dir::Out).t("R"), n("c")).step(r(Dir::Out).t("R"), n("a"))])], vec!["a", "b", "c"], vec![], None);
    add("tri_und", vec![m(vec![pp(n("a")).step(r(Dir::Both), n("b")).step(r(Dir::Both), n("c")).step(r(Dir::Both), n("a"))])], vec!["a", "b", "c"], vec![], None);
    // --- two MATCH clauses (no isomorphism across clauses)
    add("mm_expand", vec![m(vec![pp(n("a"))]), m(vec![pp(n("a")).step(r(Dir::Out).v("r"), n("b"))])], vec!["a", "b"], vec!["r"], None);
    add("mm_chain", vec![m(vec![pp(n("a")).step(r(Dir::Out).v("r"), n("b"))]), m(vec![pp(n("b")).step(r(Dir::Out).v("s"), n("c"))])], vec!["a", "b", "c"], vec!["r", "s"], None);
    add("mm_indep", vec![m(vec![pp(n("a")).step(r(Dir::Out).v("r"), n("b"))]), m(vec![pp(n("c")).step(r(Dir::Out).v("s"), n("d"))])], vec!["a", "b", "c", "d"], vec!["r", "s"], None);
    // --- OPTIONAL MATCH
    add("opt_hop", vec![m(vec![pp(n("a"))]), om(vec![pp(n("a")).step(r(Dir::Out).v("r"), n("b"))], None)], vec!["a", "b"], vec!["r"], None);
    add("opt_A_R_B", vec![m(vec![pp(n("a").l("A"))]), om(vec![pp(n("a")).step(r(Dir::Out).v("r").t("R"), n("b").l("B"))], None)], vec!["a", "b"], vec!["r"], None);
    add("opt_where", vec![m(vec![pp(n("a"))]), om(vec![pp(n("a")).step(r(Dir::Out).v("r"), n("b"))], Some(Expr::Cmp(CmpOp::Eq, Box::new(prop("b", "p")), Box::new(lit_i(1)))))], vec!["a", "b"], vec!["r"], None);
    add("opt_in", vec![m(vec![pp(n("a"))]), om(vec![pp(n("a")).step(r(Dir::In).v("r").t("R"), n("b"))], None)], vec!["a", "b"], vec!["r"], None);
    add("opt_first", vec![om(vec![pp(n("a").l("A"))], None)], vec!["a"], vec![], None);
    // --- shortest paths
    let mut sp = |name: &'static str, clauses: Vec<Clause>, shortest: bool| {
        t.push(Tmpl { name, clauses, nodes: vec!["a", "b"], rels: vec![], path: Some("p"), shortest, scalars: vec![] });
    };
    let sp_pat = |kind: PathKind, dir: Dir, ty: Option<&str>| {
        let mut rp = r(dir).range(None, None);
        if let Some(ty) = ty {
            rp = rp.t(ty);
        }
        let mut p = pp(n("a")).step(rp, n("b")).named("p");
        p.kind = kind;
        p
    };
    sp("sp_out", vec![m(vec![pp(n("a").l("A")), pp(n("b").l("B"))]), m(vec![sp_pat(PathKind::Shortest, Dir::Out, None)])], true);
    sp("sp_both_R", vec![m(vec![pp(n("a").l("A")), pp(n("b").l("B"))]), m(vec![sp_pat(PathKind::Shortest, Dir::Both, Some("R"))])], true);
    sp("asp_out", vec![m(vec![pp(n("a").l("A")), pp(n("b").l("B"))]), m(vec![sp_pat(PathKind::AllShortest, Dir::Out, None)])], false);
    sp("asp_both", vec![m(vec![pp(n("a").l("A")), pp(n("b").l("B"))]), m(vec![sp_pat(PathKind::AllShortest, Dir::Both, None)])], false);
    // --- leading UNWIND
    t.push(Tmpl { name: "unwind_lit", clauses: vec![Clause::Unwind { list: Expr::List(vec![lit_i(1), lit_i(2), Expr::Lit(LV::Null)]), var: "x".into() }], nodes: vec![], rels: vec![], path: None, shortest: false, scalars: vec!["x"] });
    t.push(Tmpl {
        name: "unwind_match",
        clauses: vec![Clause::Unwind { list: Expr::List(vec![lit_i(1), lit_i(2), Expr::Lit(LV::Null)]), var: "x".into() }, m(vec![pp(n("a").p("p", var("x")))])],
        nodes: vec!["a"],
        rels: vec![],
        path: None,
        shortest: false,
        scalars: vec!["x"],
    });
    t.push(Tmpl {
        name: "unwind_where",
        clauses: vec![Clause::Unwind { list: Expr::List(vec![lit_i(1), lit_s("x")]), var: "x".into() }, Clause::Match { optional: false, pats: vec![pp(n("a"))], where_: Some(Expr::Cmp(CmpOp::Eq, Box::new(prop("a", "p")), Box::new(var("x")))) }],
        nodes: vec!["a"],
        rels: vec![],
        path: None,
        shortest: false,
        scalars: vec!["x"],
    });
    let _ = thorough;
    t
}

fn cmp(op: CmpOp, a: Expr, b: Expr) -> Expr {
    Expr::Cmp(op, Box::new(a), Box::new(b))
}
fn and(a: Expr, b: Expr) -> Expr {
    Expr::And(Box::new(a), Box::new(b))
}
fn or(a: Expr, b: Expr) -> Expr {
    Expr::Or(Box::new(a), Box::new(b))
}
fn not(a: Expr) -> Expr {
    Expr::Not(Box::new(a))
}

/// WHERE predicates over the template's variables (None = no WHERE)
pub fn wheres(t: &Tmpl) -> Vec<(String, Option<Expr>)> {
    let mut w: Vec<(String, Option<Expr>)> = vec![("none".into(), None)];
    if let Some(a) = t.nodes.first() {
        let ap = || prop(a, "p");
        w.push(("ap_eq_1".into(), Some(cmp(CmpOp::Eq, ap(), lit_i(1)))));
        w.push(("ap_ne_1".into(), Some(cmp(CmpOp::Ne, ap(), lit_i(1)))));
        w.push(("ap_lt_2".into(), Some(cmp(CmpOp::Lt, ap(), lit_i(2)))));
        w.push(("ap_ge_1".into(), Some(cmp(CmpOp::Ge, ap(), lit_i(1)))));
        w.push(("ap_gt_x".into(), Some(cmp(CmpOp::Gt, ap(), lit_s("a")))));
        w.push(("ap_eq_x".into(), Some(cmp(CmpOp::Eq, ap(), lit_s("x")))));
        w.push(("ap_eq_1f".into(), Some(cmp(CmpOp::Eq, ap(), Expr::Lit(LV::f(1.0))))));
        w.push(("ap_null".into(), Some(Expr::IsNull(Box::new(ap()), false))));
        w.push(("ap_notnull".into(), Some(Expr::IsNull(Box::new(ap()), true))));
        w.push(("a_is_A".into(), Some(Expr::HasLabel(a.to_string(), "A".into()))));
        w.push(("a_not_B".into(), Some(not(Expr::HasLabel(a.to_string(), "B".into())))));
        w.push(("ap_in".into(), Some(Expr::In(Box::new(ap()), Box::new(Expr::List(vec![lit_i(1), lit_s("x")]))))));
        w.push(("ap_in_null".into(), Some(Expr::In(Box::new(ap()), Box::new(Expr::List(vec![lit_i(1), Expr::Lit(LV::Null)]))))));
        w.push(("ap_in_empty".into(), Some(Expr::In(Box::new(ap()), Box::new(Expr::List(vec![]))))));
        w.push(("ap_starts".into(), Some(Expr::StrOp(StrOp::StartsWith, Box::new(ap()), Box::new(lit_s("x"))))));
        w.push(("ap_contains".into(), Some(Expr::StrOp(StrOp::Contains, Box::new(ap()), Box::new(lit_s("x"))))));
        w.push(("not_ap_eq_1".into(), Some(not(cmp(CmpOp::Eq, ap(), lit_i(1))))));
        w.push(("ap1_or_B".into(), Some(or(cmp(CmpOp::Eq, ap(), lit_i(1)), Expr::HasLabel(a.to_string(), "B".into())))));
        w.push(("ap1_xor_A".into(), Some(Expr::Xor(Box::new(cmp(CmpOp::Eq, ap(), lit_i(1))), Box::new(Expr::HasLabel(a.to_string(), "A".into()))))));
        w.push(("lt2_and_notnull".into(), Some(and(cmp(CmpOp::Lt, ap(), lit_i(2)), not(Expr::IsNull(Box::new(ap()), false))))));
        w.push(("not_1_or_2".into(), Some(not(or(cmp(CmpOp::Eq, ap(), lit_i(1)), cmp(CmpOp::Eq, ap(), lit_i(2)))))));
        w.push(("ap_plus".into(), Some(cmp(CmpOp::Eq, Expr::Arith(ArOp::Add, Box::new(ap()), Box::new(lit_i(1))), lit_i(2)))));
        if let Some(b) = t.nodes.get(1) {
            let bp = || prop(b, "p");
            w.push(("ap_eq_bp".into(), Some(cmp(CmpOp::Eq, ap(), bp()))));
            w.push(("ap_lt_bp".into(), Some(cmp(CmpOp::Lt, ap(), bp()))));
            w.push(("ap_ne_bp".into(), Some(cmp(CmpOp::Ne, ap(), bp()))));
            w.push(("ap1_and_bp2".into(), Some(and(cmp(CmpOp::Eq, ap(), lit_i(1)), cmp(CmpOp::Eq, bp(), lit_i(2))))));
            w.push(("a_ne_b".into(), Some(cmp(CmpOp::Ne, var(a), var(b)))));
            w.push(("a_eq_b".into(), Some(cmp(CmpOp::Eq, var(a), var(b)))));
            w.push(("b_is_B".into(), Some(Expr::HasLabel(b.to_string(), "B".into()))));
        }
    }
    if let Some(r) = t.rels.first() {
        w.push(("rw_eq_1".into(), Some(cmp(CmpOp::Eq, prop(r, "w"), lit_i(1)))));
        w.push(("rw_null".into(), Some(Expr::IsNull(Box::new(prop(r, "w")), false))));
        w.push(("type_eq_R".into(), Some(cmp(CmpOp::Eq, Expr::Func("type".into(), vec![var(r)]), lit_s("R")))));
        if let Some(s) = t.rels.get(1) {
            w.push(("r_ne_s".into(), Some(cmp(CmpOp::Ne, var(r), var(s)))));
        }
    }
    if let Some(x) = t.scalars.first() {
        w.push(("x_gt_1".into(), Some(cmp(CmpOp::Gt, var(x), lit_i(1)))));
        w.push(("x_null".into(), Some(Expr::IsNull(Box::new(var(x)), false))));
    }
    w
}

fn item(e: Expr, alias: Option<&str>) -> Item {
    Item { expr: e, alias: alias.map(|s| s.to_string()) }
}
fn agg(f: AggF, distinct: bool, arg: Option<Expr>) -> Expr {
    Expr::Agg(f, distinct, arg.map(Box::new))
}

/// Tails: the clauses after the MATCH part (optional WITH stage + RETURN).
pub fn tails(t: &Tmpl, rich: bool) -> Vec<(String, Vec<Clause>)> {
    let mut out: Vec<(String, Vec<Clause>)> = vec![];
    let mut ret = |name: &str, p: Proj| out.push((name.to_string(), vec![Clause::Return(p)]));
    let a = t.nodes.first().copied();
    let b = t.nodes.get(1).copied();
    let r = t.rels.first().copied();
    // everything bound
    {
        let mut items = vec![];
        for v in &t.nodes {
            items.push(item(var(v), None));
        }
        for v in &t.rels {
            items.push(item(var(v), None));
        }
        for v in &t.scalars {
            items.push(item(var(v), None));
        }
        if let Some(p) = t.path {
            if !t.shortest {
                items.push(item(var(p), None));
            } else {
                items.push(item(Expr::Func("length".into(), vec![var(p)]), Some("len")));
            }
        }
        if !items.is_empty() {
            ret("all_vars", Proj { items, ..Default::default() });
        }
    }
    ret("count_star", Proj { items: vec![item(agg(AggF::Count, false, None), Some("c"))], ..Default::default() });
    if let Some(p) = t.path {
        ret("len_p", Proj { items: vec![item(Expr::Func("length".into(), vec![var(p)]), Some("len"))], ..Default::default() });
        if !t.shortest {
            ret("nodes_p", Proj { items: vec![item(Expr::Func("nodes".into(), vec![var(p)]), Some("ns")), item(Expr::Func("relationships".into(), vec![var(p)]), Some("rs"))], ..Default::default() });
        }
    }
    if let Some(x) = t.scalars.first() {
        ret("x_plus", Proj { items: vec![item(Expr::Arith(ArOp::Add, Box::new(var(x)), Box::new(lit_i(1))), Some("y"))], ..Default::default() });
        ret("collect_x", Proj { items: vec![item(agg(AggF::Collect, false, Some(var(x))), Some("xs"))], ..Default::default() });
        ret("sum_x", Proj { items: vec![item(agg(AggF::Sum, false, Some(var(x))), Some("s"))], ..Default::default() });
    }
    if let Some(a) = a {
        let ap = || prop(a, "p");
        ret("ap", Proj { items: vec![item(ap(), None)], ..Default::default() });
        ret("labels_a", Proj { items: vec![item(Expr::Func("labels".into(), vec![var(a)]), Some("ls"))], ..Default::default() });
        ret("ap_plus_1", Proj { items: vec![item(Expr::Arith(ArOp::Add, Box::new(ap()), Box::new(lit_i(1))), Some("x"))], ..Default::default() });
        ret("coalesce", Proj { items: vec![item(Expr::Func("coalesce".into(), vec![ap(), lit_i(0)]), Some("x"))], ..Default::default() });
        ret("ap_eq_1", Proj { items: vec![item(Expr::Cmp(CmpOp::Eq, Box::new(ap()), Box::new(lit_i(1))), Some("x"))], ..Default::default() });
        ret("distinct_ap", Proj { distinct: true, items: vec![item(ap(), None)], ..Default::default() });
        ret("distinct_a", Proj { distinct: true, items: vec![item(var(a), None)], ..Default::default() });
        ret("count_a", Proj { items: vec![item(agg(AggF::Count, false, Some(var(a))), Some("c"))], ..Default::default() });
        ret("count_ap", Proj { items: vec![item(agg(AggF::Count, false, Some(ap())), Some("c"))], ..Default::default() });
        ret("count_distinct_ap", Proj { items: vec![item(agg(AggF::Count, true, Some(ap())), Some("c"))], ..Default::default() });
        ret("count_distinct_a", Proj { items: vec![item(agg(AggF::Count, true, Some(var(a))), Some("c"))], ..Default::default() });
        ret("sum_ap", Proj { items: vec![item(agg(AggF::Sum, false, Some(ap())), Some("s"))], ..Default::default() });
        ret("avg_ap", Proj { items: vec![item(agg(AggF::Avg, false, Some(ap())), Some("s"))], ..Default::default() });
        ret("min_ap", Proj { items: vec![item(agg(AggF::Min, false, Some(ap())), Some("s"))], ..Default::default() });
        ret("max_ap", Proj { items: vec![item(agg(AggF::Max, false, Some(ap())), Some("s"))], ..Default::default() });
        ret("collect_ap", Proj { items: vec![item(agg(AggF::Collect, false, Some(ap())), Some("s"))], ..Default::default() });
        ret("ap_group_count", Proj { items: vec![item(ap(), Some("k")), item(agg(AggF::Count, false, None), Some("c"))], ..Default::default() });
        ret("a_group_count", Proj { items: vec![item(var(a), None), item(agg(AggF::Count, false, None), Some("c"))], ..Default::default() });
        // ORDER BY / SKIP / LIMIT
        ret("order_ap", Proj { items: vec![item(ap(), Some("k"))], order: vec![(var("k"), false)], ..Default::default() });
        ret("order_ap_desc", Proj { items: vec![item(ap(), Some("k"))], order: vec![(var("k"), true)], ..Default::default() });
        ret("order_ap_limit1", Proj { items: vec![item(ap(), Some("k")), item(var(a), None)], order: vec![(var("k"), false)], limit: Some(lit_i(1)), ..Default::default() });
        ret("order_ap_desc_limit2", Proj { items: vec![item(ap(), Some("k")), item(var(a), None)], order: vec![(var("k"), true)], limit: Some(lit_i(2)), ..Default::default() });
        ret("order_ap_skip1_limit1", Proj { items: vec![item(ap(), Some("k"))], order: vec![(var("k"), false)], skip: Some(lit_i(1)), limit: Some(lit_i(1)), ..Default::default() });
        ret("limit1", Proj { items: vec![item(var(a), None)], limit: Some(lit_i(1)), ..Default::default() });
        ret("skip1", Proj { items: vec![item(ap(), None)], skip: Some(lit_i(1)), ..Default::default() });
        ret("limit0", Proj { items: vec![item(var(a), None)], limit: Some(lit_i(0)), ..Default::default() });
        ret("case_when", Proj { items: vec![item(Expr::Case(Box::new(Expr::Cmp(CmpOp::Eq, Box::new(ap()), Box::new(lit_i(1)))), Box::new(lit_s("one")), Box::new(lit_s("other"))), Some("x"))], ..Default::default() });
        ret("distinct_order", Proj { distinct: true, items: vec![item(ap(), Some("k"))], order: vec![(var("k"), false)], ..Default::default() });
        ret("group_min_max", Proj { items: vec![item(Expr::HasLabel(a.to_string(), "A".into()), Some("isA")), item(agg(AggF::Min, false, Some(ap())), Some("lo")), item(agg(AggF::Count, true, Some(ap())), Some("c"))], ..Default::default() });
        ret("collect_distinct", Proj { items: vec![item(agg(AggF::Collect, true, Some(ap())), Some("xs"))], ..Default::default() });
        ret("skip_beyond", Proj { items: vec![item(ap(), None)], skip: Some(lit_i(5)), ..Default::default() });
        ret("order_limit_big", Proj { items: vec![item(ap(), Some("k"))], order: vec![(var("k"), true)], limit: Some(lit_i(10)), ..Default::default() });
        ret("is_null_proj", Proj { items: vec![item(Expr::IsNull(Box::new(ap()), false), Some("x")), item(Expr::In(Box::new(ap()), Box::new(Expr::List(vec![lit_i(1), lit_i(2)]))), Some("y"))], ..Default::default() });
        if let Some(b) = b {
            let bp = || prop(b, "p");
            ret("ap_bp", Proj { items: vec![item(ap(), None), item(bp(), None)], ..Default::default() });
            ret("b_count_a", Proj { items: vec![item(var(b), None), item(agg(AggF::Count, false, Some(var(a))), Some("c"))], ..Default::default() });
            ret("a_count_b", Proj { items: vec![item(var(a), None), item(agg(AggF::Count, false, Some(var(b))), Some("c"))], ..Default::default() });
            ret("a_count_distinct_b", Proj { items: vec![item(var(a), None), item(agg(AggF::Count, true, Some(var(b))), Some("c"))], ..Default::default() });
            ret("a_collect_bp", Proj { items: vec![item(var(a), None), item(agg(AggF::Collect, false, Some(bp())), Some("c"))], ..Default::default() });
            ret("count_distinct_b", Proj { items: vec![item(agg(AggF::Count, true, Some(var(b))), Some("c"))], ..Default::default() });
            ret("a_sum_bp", Proj { items: vec![item(var(a), None), item(agg(AggF::Sum, false, Some(bp())), Some("c"))], ..Default::default() });
            // grouped by a PROPERTY of one variable: distinct nodes with equal key values fall into one
            // group, and their partial aggregates have to be merged (seeded change C01b)
            ret("ap_sum_bp", Proj { items: vec![item(ap(), Some("k")), item(agg(AggF::Sum, false, Some(bp())), Some("s"))], ..Default::default() });
            ret("ap_avg_count_bp", Proj { items: vec![item(ap(), Some("k")), item(agg(AggF::Avg, false, Some(bp())), Some("m")), item(agg(AggF::Count, false, Some(bp())), Some("c"))], ..Default::default() });
            ret("ap_min_max_bp", Proj { items: vec![item(ap(), Some("k")), item(agg(AggF::Min, false, Some(bp())), Some("lo")), item(agg(AggF::Max, false, Some(bp())), Some("hi"))], ..Default::default() });
            ret("order_2keys", Proj { items: vec![item(ap(), Some("k")), item(bp(), Some("l"))], order: vec![(var("k"), false), (var("l"), true)], ..Default::default() });
            ret("b_count_a_order_limit", Proj { items: vec![item(var(b), None), item(agg(AggF::Count, false, Some(var(a))), Some("c"))], order: vec![(var("c"), true)], limit: Some(lit_i(1)), ..Default::default() });
            ret("distinct_ab", Proj { distinct: true, items: vec![item(var(a), None), item(var(b), None)], ..Default::default() });
        }
        if let Some(r) = r {
            ret("rw", Proj { items: vec![item(prop(r, "w"), None)], ..Default::default() });
            ret("type_r", Proj { items: vec![item(Expr::Func("type".into(), vec![var(r)]), Some("t"))], ..Default::default() });
            ret("distinct_type", Proj { distinct: true, items: vec![item(Expr::Func("type".into(), vec![var(r)]), Some("t"))], ..Default::default() });
            ret("type_count", Proj { items: vec![item(Expr::Func("type".into(), vec![var(r)]), Some("t")), item(agg(AggF::Count, false, Some(var(r))), Some("c"))], ..Default::default() });
            ret("a_count_r", Proj { items: vec![item(var(a), None), item(agg(AggF::Count, false, Some(var(r))), Some("c"))], ..Default::default() });
            ret("sum_rw", Proj { items: vec![item(agg(AggF::Sum, false, Some(prop(r, "w"))), Some("s"))], ..Default::default() });
        }
    }
    if let Some(r) = r {
        ret("count_r", Proj { items: vec![item(agg(AggF::Count, false, Some(var(r))), Some("c"))], ..Default::default() });
        ret("count_distinct_r", Proj { items: vec![item(agg(AggF::Count, true, Some(var(r))), Some("c"))], ..Default::default() });
        ret("r_only", Proj { items: vec![item(var(r), None)], ..Default::default() });
        if a.is_none() {
            ret("type_count_anon", Proj { items: vec![item(Expr::Func("type".into(), vec![var(r)]), Some("t")), item(agg(AggF::Count, false, Some(var(r))), Some("c"))], ..Default::default() });
        }
    }
    // --- WITH stages
    if let Some(a) = a {
        let ap = || prop(a, "p");
        let with = |p: Proj, rest: Vec<Clause>| {
            let mut v = vec![Clause::With(p)];
            v.extend(rest);
            v
        };
        let ret_c = |items: Vec<Item>| Clause::Return(Proj { items, ..Default::default() });
        // --- further stages (added after the first full runs; each found or guards a planner path)
        out.push(("with_collect_unwind".into(), with(Proj { items: vec![item(agg(AggF::Collect, false, Some(var(a))), Some("xs"))], ..Default::default() }, vec![Clause::Unwind { list: var("xs"), var: "x".into() }, ret_c(vec![item(var("x"), None)])])));
        out.push(("with_two_stages".into(), with(Proj { items: vec![item(var(a), None), item(ap(), Some("k"))], ..Default::default() }, vec![Clause::With(Proj { distinct: true, items: vec![item(var("k"), None)], ..Default::default() }), ret_c(vec![item(var("k"), None)])])));
        out.push(("with_count_distinct_group".into(), with(Proj { items: vec![item(Expr::HasLabel(a.to_string(), "A".into()), Some("isA")), item(agg(AggF::Count, true, Some(ap())), Some("c"))], ..Default::default() }, vec![ret_c(vec![item(var("isA"), None), item(var("c"), None)])])));
        out.push(("with_min_max".into(), with(Proj { items: vec![item(agg(AggF::Min, false, Some(ap())), Some("lo")), item(agg(AggF::Max, false, Some(ap())), Some("hi"))], ..Default::default() }, vec![ret_c(vec![item(var("lo"), None), item(var("hi"), None)])])));
        out.push(("with_skip".into(), with(Proj { items: vec![item(var(a), None), item(ap(), Some("k"))], order: vec![(var("k"), true)], skip: Some(lit_i(1)), ..Default::default() }, vec![ret_c(vec![item(var(a), None), item(var("k"), None)])])));
        out.push(("with_count_only".into(), with(Proj { items: vec![item(agg(AggF::Count, false, Some(var(a))), Some("c"))], ..Default::default() }, vec![ret_c(vec![item(var("c"), None)])])));
        out.push(("with_count_star_only".into(), with(Proj { items: vec![item(agg(AggF::Count, false, None), Some("c"))], ..Default::default() }, vec![ret_c(vec![item(var("c"), None)])])));
        out.push(("with_sum_only".into(), with(Proj { items: vec![item(agg(AggF::Sum, false, Some(ap())), Some("s")), item(agg(AggF::Collect, false, Some(ap())), Some("xs"))], ..Default::default() }, vec![ret_c(vec![item(var("s"), None), item(Expr::Func("size".into(), vec![var("xs")]), Some("n"))])])));
        out.push(("with_a".into(), with(Proj { items: vec![item(var(a), None)], ..Default::default() }, vec![ret_c(vec![item(ap(), None)])])));
        out.push(("with_distinct_a".into(), with(Proj { distinct: true, items: vec![item(var(a), None)], ..Default::default() }, vec![ret_c(vec![item(var(a), None)])])));
        out.push(("with_x_where".into(), with(Proj { items: vec![item(ap(), Some("x"))], where_: Some(cmp(CmpOp::Gt, var("x"), lit_i(1))), ..Default::default() }, vec![ret_c(vec![item(var("x"), None)])])));
        out.push(("with_count_where".into(), with(Proj { items: vec![item(var(a), None), item(agg(AggF::Count, false, None), Some("c"))], where_: Some(cmp(CmpOp::Gt, var("c"), lit_i(1))), ..Default::default() }, vec![ret_c(vec![item(var(a), None), item(var("c"), None)])])));
        out.push(("with_order_limit".into(), with(Proj { items: vec![item(var(a), None), item(ap(), Some("k"))], order: vec![(var("k"), false)], limit: Some(lit_i(1)), ..Default::default() }, vec![ret_c(vec![item(var(a), None), item(var("k"), None)])])));
        out.push((
            "with_then_match".into(),
            with(Proj { items: vec![item(var(a), None)], ..Default::default() }, vec![m(vec![pp(n(a)).step(RelPat::new(Dir::Out).v("r2"), n("z"))]), ret_c(vec![item(var(a), None), item(var("r2"), None), item(var("z"), None)])]),
        ));
        out.push((
            "with_distinct_then_match".into(),
            with(Proj { distinct: true, items: vec![item(var(a), None)], ..Default::default() }, vec![m(vec![pp(n(a)).step(RelPat::new(Dir::In).v("r2").t("R"), n("z"))]), ret_c(vec![item(var(a), None), item(agg(AggF::Count, false, Some(var("z"))), Some("c"))])]),
        ));
        if let Some(b) = b {
            out.push(("with_b_count_a".into(), with(Proj { items: vec![item(var(b), None), item(agg(AggF::Count, false, Some(var(a))), Some("c"))], ..Default::default() }, vec![ret_c(vec![item(var(b), None), item(var("c"), None)])])));
            out.push((
                "with_agg_then_expand".into(),
                with(
                    Proj { items: vec![item(var(b), None), item(agg(AggF::Count, false, Some(var(a))), Some("c"))], ..Default::default() },
                    vec![m(vec![pp(n(b)).step(RelPat::new(Dir::Out).v("r2"), n("z"))]), ret_c(vec![item(var(b), None), item(var("c"), None), item(var("z"), None)])],
                ),
            ));
            out.push(("with_collect".into(), with(Proj { items: vec![item(var(a), None), item(agg(AggF::Collect, false, Some(prop(b, "p"))), Some("ps"))], ..Default::default() }, vec![ret_c(vec![item(var(a), None), item(Expr::Func("size".into(), vec![var("ps")]), Some("n"))])])));
        }
    }
    let _ = rich;
    out
}

/// Attach a WHERE to the last MATCH clause of the template.
pub fn with_where(t: &Tmpl, w: &Option<Expr>) -> Option<Vec<Clause>> {
    let mut c = t.clauses.clone();
    if let Some(w) = w {
        let last_match = c.iter().rposition(|x| matches!(x, Clause::Match { .. }))?;
        if let Clause::Match { where_, .. } = &mut c[last_match] {
            *where_ = Some(match where_.take() {
                Some(old) => and(old, w.clone()),
                None => w.clone(),
            });
        }
    }
    Some(c)
}

pub struct GenQuery {
    pub name: String,
    pub q: Query,
}

/// The query space. quick: every template x (every tail without WHERE  +  every WHERE with the
/// all-vars / count tails). thorough: every template x every WHERE x every tail.
pub fn queries(thorough: bool) -> Vec<GenQuery> {
    let mut out = vec![];
    let mut seen = BTreeSet::new();
    for t in templates(thorough) {
        let ws = wheres(&t);
        let ts = tails(&t, thorough);
        for (wn, w) in &ws {
            for (i, (tn, tail)) in ts.iter().enumerate() {
                let full = thorough || w.is_none() || i < 2;
                if !full {
                    continue;
                }
                if let Some(mut clauses) = with_where(&t, w) {
                    clauses.extend(tail.clone());
                    let q = Query::new(clauses);
                    let text = q.print();
                    if seen.insert(text) {
                        out.push(GenQuery { name: format!("{}/{}/{}", t.name, wn, tn), q });
                    }
                }
            }
        }
    }
    // UNION forms
    let u = |l: Query, all: bool, r: Query| Query { clauses: l.clauses, union: Some((all, Box::new(r))) };
    let q1 = Query::new(vec![m(vec![pp(n("a").l("A"))]), Clause::Return(Proj { items: vec![item(prop("a", "p"), Some("x"))], ..Default::default() })]);
    let q2 = Query::new(vec![m(vec![pp(n("b").l("B"))]), Clause::Return(Proj { items: vec![item(prop("b", "p"), Some("x"))], ..Default::default() })]);
    let q3 = Query::new(vec![Clause::Unwind { list: Expr::List(vec![lit_i(1), lit_i(1), Expr::Lit(LV::Null)]), var: "x".into() }, Clause::Return(Proj { items: vec![item(var("x"), None)], ..Default::default() })]);
    for (nm, l, all, rq) in [("u_AB", q1.clone(), false, q2.clone()), ("ua_AB", q1.clone(), true, q2.clone()), ("u_A_unwind", q1.clone(), false, q3.clone()), ("ua_unwind2", q3.clone(), true, q3.clone()), ("u_unwind2", q3.clone(), false, q3.clone())] {
        out.push(GenQuery { name: format!("union/{nm}"), q: u(l, all, rq) });
    }
    out
}
