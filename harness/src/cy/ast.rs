//! AST of the generated Cypher fragment + printer (the printer is part of the trusted base).
#![allow(dead_code)]
use svmc::model::values::LV;

#[derive(Clone, Debug, PartialEq)]
pub enum CmpOp {
    Eq,
    Ne,
    Lt,
    Le,
    Gt,
    Ge,
}
#[derive(Clone, Debug, PartialEq)]
pub enum ArOp {
    Add,
    Sub,
    Mul,
    Div,
    Mod,
}
#[derive(Clone, Debug, PartialEq)]
pub enum StrOp {
    StartsWith,
    EndsWith,
    Contains,
}
#[derive(Clone, Debug, PartialEq)]
pub enum AggF {
    Count,
    Sum,
    Avg,
    Min,
    Max,
    Collect,
}

#[derive(Clone, Debug, PartialEq)]
pub enum Expr {
    Lit(LV),
    Param(String),
    Var(String),
    Prop(String, String),
    Cmp(CmpOp, Box<Expr>, Box<Expr>),
    And(Box<Expr>, Box<Expr>),
    Or(Box<Expr>, Box<Expr>),
    Xor(Box<Expr>, Box<Expr>),
    Not(Box<Expr>),
    IsNull(Box<Expr>, bool),
    HasLabel(String, String),
    In(Box<Expr>, Box<Expr>),
    StrOp(StrOp, Box<Expr>, Box<Expr>),
    Arith(ArOp, Box<Expr>, Box<Expr>),
    List(Vec<Expr>),
    Map(Vec<(String, Expr)>),
    Func(String, Vec<Expr>),
    /// aggregate; arg None = count(*)
    Agg(AggF, bool, Option<Box<Expr>>),
    /// CASE WHEN c THEN a ELSE b END
    Case(Box<Expr>, Box<Expr>, Box<Expr>),
}

pub fn lit_i(i: i64) -> Expr {
    Expr::Lit(LV::Int(i))
}
pub fn lit_s(s: &str) -> Expr {
    Expr::Lit(LV::Str(s.to_string()))
}
pub fn var(s: &str) -> Expr {
    Expr::Var(s.to_string())
}
pub fn prop(v: &str, k: &str) -> Expr {
    Expr::Prop(v.to_string(), k.to_string())
}

impl Expr {
    pub fn has_agg(&self) -> bool {
        match self {
            Expr::Agg(..) => true,
            Expr::Cmp(_, a, b) | Expr::And(a, b) | Expr::Or(a, b) | Expr::Xor(a, b) | Expr::In(a, b) | Expr::StrOp(_, a, b) | Expr::Arith(_, a, b) => a.has_agg() || b.has_agg(),
            Expr::Not(a) | Expr::IsNull(a, _) => a.has_agg(),
            Expr::List(l) | Expr::Func(_, l) => l.iter().any(|e| e.has_agg()),
            Expr::Map(m) => m.iter().any(|(_, e)| e.has_agg()),
            Expr::Case(a, b, c) => a.has_agg() || b.has_agg() || c.has_agg(),
            _ => false,
        }
    }
    pub fn print(&self) -> String {
        match self {
            Expr::Lit(v) => v.lit(),
            Expr::Param(p) => format!("${p}"),
            Expr::Var(v) => v.clone(),
            Expr::Prop(v, k) => format!("{v}.{k}"),
            Expr::Cmp(op, a, b) => {
                let o = match op {
                    CmpOp::Eq => "=",
                    CmpOp::Ne => "<>",
                    CmpOp::Lt => "<",
                    CmpOp::Le => "<=",
                    CmpOp::Gt => ">",
                    CmpOp::Ge => ">=",
                };
                format!("{} {} {}", a.print_p(), o, b.print_p())
            }
            Expr::And(a, b) => format!("{} AND {}", a.print_p(), b.print_p()),
            Expr::Or(a, b) => format!("{} OR {}", a.print_p(), b.print_p()),
            Expr::Xor(a, b) => format!("{} XOR {}", a.print_p(), b.print_p()),
            Expr::Not(a) => format!("NOT {}", a.print_p()),
            Expr::IsNull(a, neg) => format!("{} IS {}NULL", a.print_p(), if *neg { "NOT " } else { "" }),
            Expr::HasLabel(v, l) => format!("{v}:{l}"),
            Expr::In(a, b) => format!("{} IN {}", a.print_p(), b.print_p()),
            Expr::StrOp(op, a, b) => {
                let o = match op {
                    StrOp::StartsWith => "STARTS WITH",
                    StrOp::EndsWith => "ENDS WITH",
                    StrOp::Contains => "CONTAINS",
                };
                format!("{} {} {}", a.print_p(), o, b.print_p())
            }
            Expr::Arith(op, a, b) => {
                let o = match op {
                    ArOp::Add => "+",
                    ArOp::Sub => "-",
                    ArOp::Mul => "*",
                    ArOp::Div => "/",
                    ArOp::Mod => "%",
                };
                format!("{} {} {}", a.print_p(), o, b.print_p())
            }
            Expr::List(l) => format!("[{}]", l.iter().map(|e| e.print()).collect::<Vec<_>>().join(", ")),
            Expr::Map(m) => format!("{{{}}}", m.iter().map(|(k, e)| format!("{k}: {}", e.print())).collect::<Vec<_>>().join(", ")),
            Expr::Func(f, args) => format!("{f}({})", args.iter().map(|e| e.print()).collect::<Vec<_>>().join(", ")),
            Expr::Agg(f, distinct, arg) => {
                let n = match f {
                    AggF::Count => "count",
                    AggF::Sum => "sum",
                    AggF::Avg => "avg",
                    AggF::Min => "min",
                    AggF::Max => "max",
                    AggF::Collect => "collect",
                };
                match arg {
                    None => format!("{n}(*)"),
                    Some(a) => format!("{n}({}{})", if *distinct { "DISTINCT " } else { "" }, a.print()),
                }
            }
            Expr::Case(c, a, b) => format!("CASE WHEN {} THEN {} ELSE {} END", c.print(), a.print(), b.print()),
        }
    }
    /// print, parenthesised when compound (no reliance on precedence)
    fn print_p(&self) -> String {
        match self {
            Expr::Lit(_) | Expr::Param(_) | Expr::Var(_) | Expr::Prop(..) | Expr::List(_) | Expr::Map(_) | Expr::Func(..) | Expr::Agg(..) => self.print(),
            _ => format!("({})", self.print()),
        }
    }
}

#[derive(Clone, Debug, PartialEq, Default)]
pub struct NodePat {
    pub var: Option<String>,
    pub labels: Vec<String>,
    pub props: Vec<(String, Expr)>,
}
#[derive(Clone, Debug, PartialEq)]
pub enum Dir {
    Out,
    In,
    Both,
}
#[derive(Clone, Debug, PartialEq)]
pub struct RelPat {
    pub var: Option<String>,
    pub types: Vec<String>,
    pub dir: Dir,
    pub props: Vec<(String, Expr)>,
    /// None = exactly one hop; Some((min,max)) = variable length (`*` = (None,None))
    pub len: Option<(Option<u32>, Option<u32>)>,
}
#[derive(Clone, Debug, PartialEq)]
pub enum PathKind {
    Plain,
    Shortest,
    AllShortest,
}
#[derive(Clone, Debug, PartialEq)]
pub struct PathPat {
    pub pvar: Option<String>,
    pub kind: PathKind,
    pub start: NodePat,
    pub steps: Vec<(RelPat, NodePat)>,
}

fn print_props(props: &[(String, Expr)]) -> String {
    if props.is_empty() {
        String::new()
    } else {
        format!(" {{{}}}", props.iter().map(|(k, e)| format!("{k}: {}", e.print())).collect::<Vec<_>>().join(", "))
    }
}
impl NodePat {
    pub fn v(name: &str) -> NodePat {
        NodePat { var: Some(name.to_string()), labels: vec![], props: vec![] }
    }
    pub fn anon() -> NodePat {
        NodePat::default()
    }
    pub fn l(mut self, label: &str) -> NodePat {
        self.labels.push(label.to_string());
        self
    }
    pub fn p(mut self, k: &str, e: Expr) -> NodePat {
        self.props.push((k.to_string(), e));
        self
    }
    pub fn print(&self) -> String {
        format!("({}{}{})", self.var.clone().unwrap_or_default(), self.labels.iter().map(|l| format!(":{l}")).collect::<String>(), print_props(&self.props))
    }
}
impl RelPat {
    pub fn new(dir: Dir) -> RelPat {
        RelPat { var: None, types: vec![], dir, props: vec![], len: None }
    }
    pub fn v(mut self, name: &str) -> RelPat {
        self.var = Some(name.to_string());
        self
    }
    pub fn t(mut self, ty: &str) -> RelPat {
        self.types.push(ty.to_string());
        self
    }
    pub fn p(mut self, k: &str, e: Expr) -> RelPat {
        self.props.push((k.to_string(), e));
        self
    }
    pub fn range(mut self, min: Option<u32>, max: Option<u32>) -> RelPat {
        self.len = Some((min, max));
        self
    }
    pub fn print(&self) -> String {
        let len = match &self.len {
            None => String::new(),
            Some((None, None)) => "*".into(),
            Some((Some(a), Some(b))) if a == b => format!("*{a}"),
            Some((a, b)) => format!("*{}..{}", a.map(|x| x.to_string()).unwrap_or_default(), b.map(|x| x.to_string()).unwrap_or_default()),
        };
        let inner = format!("{}{}{}{}", self.var.clone().unwrap_or_default(), if self.types.is_empty() { String::new() } else { format!(":{}", self.types.join("|")) }, len, print_props(&self.props));
        let body = if inner.is_empty() { String::new() } else { format!("[{inner}]") };
        match self.dir {
            Dir::Out => format!("-{body}->"),
            Dir::In => format!("<-{body}-"),
            Dir::Both => format!("-{body}-"),
        }
    }
}
impl PathPat {
    pub fn node(n: NodePat) -> PathPat {
        PathPat { pvar: None, kind: PathKind::Plain, start: n, steps: vec![] }
    }
    pub fn step(mut self, r: RelPat, n: NodePat) -> PathPat {
        self.steps.push((r, n));
        self
    }
    pub fn named(mut self, p: &str) -> PathPat {
        self.pvar = Some(p.to_string());
        self
    }
    pub fn print(&self) -> String {
        let mut s = self.start.print();
        for (r, n) in &self.steps {
            s.push_str(&r.print());
            s.push_str(&n.print());
        }
        let s = match self.kind {
            PathKind::Plain => s,
            PathKind::Shortest => format!("shortestPath({s})"),
            PathKind::AllShortest => format!("allShortestPaths({s})"),
        };
        match &self.pvar {
            Some(p) => format!("{p} = {s}"),
            None => s,
        }
    }
    pub fn vars(&self) -> Vec<String> {
        let mut v = vec![];
        if let Some(p) = &self.pvar {
            v.push(p.clone());
        }
        if let Some(x) = &self.start.var {
            v.push(x.clone());
        }
        for (r, n) in &self.steps {
            if let Some(x) = &r.var {
                v.push(x.clone());
            }
            if let Some(x) = &n.var {
                v.push(x.clone());
            }
        }
        v
    }
}

#[derive(Clone, Debug, PartialEq)]
pub struct Item {
    pub expr: Expr,
    pub alias: Option<String>,
}
impl Item {
    pub fn name(&self) -> String {
        self.alias.clone().unwrap_or_else(|| self.expr.print())
    }
}
#[derive(Clone, Debug, PartialEq, Default)]
pub struct Proj {
    pub distinct: bool,
    pub items: Vec<Item>,
    pub order: Vec<(Expr, bool)>,
    pub skip: Option<Expr>,
    pub limit: Option<Expr>,
    pub where_: Option<Expr>,
}
impl Proj {
    pub fn of(items: Vec<(Expr, Option<&str>)>) -> Proj {
        Proj { items: items.into_iter().map(|(e, a)| Item { expr: e, alias: a.map(|s| s.to_string()) }).collect(), ..Default::default() }
    }
    fn print(&self, kw: &str) -> String {
        let mut s = format!("{kw} {}{}", if self.distinct { "DISTINCT " } else { "" }, self.items.iter().map(|i| match &i.alias {
            Some(a) => format!("{} AS {a}", i.expr.print()),
            None => i.expr.print(),
        }).collect::<Vec<_>>().join(", "));
        if !self.order.is_empty() {
            s.push_str(&format!(" ORDER BY {}", self.order.iter().map(|(e, d)| format!("{}{}", e.print(), if *d { " DESC" } else { "" })).collect::<Vec<_>>().join(", ")));
        }
        if let Some(k) = &self.skip {
            s.push_str(&format!(" SKIP {}", k.print()));
        }
        if let Some(k) = &self.limit {
            s.push_str(&format!(" LIMIT {}", k.print()));
        }
        if let Some(w) = &self.where_ {
            s.push_str(&format!(" WHERE {}", w.print()));
        }
        s
    }
}

#[derive(Clone, Debug, PartialEq)]
pub enum SetItem {
    Prop(String, String, Expr),
    Labels(String, Vec<String>),
    Replace(String, Expr),
    MergeMap(String, Expr),
}
#[derive(Clone, Debug, PartialEq)]
pub enum RemoveItem {
    Prop(String, String),
    Label(String, String),
}
impl SetItem {
    pub fn print(&self) -> String {
        match self {
            SetItem::Prop(v, k, e) => format!("{v}.{k} = {}", e.print()),
            SetItem::Labels(v, ls) => format!("{v}{}", ls.iter().map(|l| format!(":{l}")).collect::<String>()),
            SetItem::Replace(v, e) => format!("{v} = {}", e.print()),
            SetItem::MergeMap(v, e) => format!("{v} += {}", e.print()),
        }
    }
}

#[derive(Clone, Debug, PartialEq)]
pub enum Clause {
    Match { optional: bool, pats: Vec<PathPat>, where_: Option<Expr> },
    Unwind { list: Expr, var: String },
    With(Proj),
    Return(Proj),
    Create(Vec<PathPat>),
    Merge { pat: PathPat, on_create: Vec<SetItem>, on_match: Vec<SetItem> },
    Set(Vec<SetItem>),
    Remove(Vec<RemoveItem>),
    Delete { detach: bool, vars: Vec<String> },
}
impl Clause {
    pub fn print(&self) -> String {
        match self {
            Clause::Match { optional, pats, where_ } => format!(
                "{}MATCH {}{}",
                if *optional { "OPTIONAL " } else { "" },
                pats.iter().map(|p| p.print()).collect::<Vec<_>>().join(", "),
                where_.as_ref().map(|w| format!(" WHERE {}", w.print())).unwrap_or_default()
            ),
            Clause::Unwind { list, var } => format!("UNWIND {} AS {var}", list.print()),
            Clause::With(p) => p.print("WITH"),
            Clause::Return(p) => p.print("RETURN"),
            Clause::Create(pats) => format!("CREATE {}", pats.iter().map(|p| p.print()).collect::<Vec<_>>().join(", ")),
            Clause::Merge { pat, on_create, on_match } => {
                let mut s = format!("MERGE {}", pat.print());
                if !on_create.is_empty() {
                    s.push_str(&format!(" ON CREATE SET {}", on_create.iter().map(|i| i.print()).collect::<Vec<_>>().join(", ")));
                }
                if !on_match.is_empty() {
                    s.push_str(&format!(" ON MATCH SET {}", on_match.iter().map(|i| i.print()).collect::<Vec<_>>().join(", ")));
                }
                s
            }
            Clause::Set(items) => format!("SET {}", items.iter().map(|i| i.print()).collect::<Vec<_>>().join(", ")),
            Clause::Remove(items) => format!(
                "REMOVE {}",
                items.iter().map(|i| match i {
                    RemoveItem::Prop(v, k) => format!("{v}.{k}"),
                    RemoveItem::Label(v, l) => format!("{v}:{l}"),
                }).collect::<Vec<_>>().join(", ")
            ),
            Clause::Delete { detach, vars } => format!("{}DELETE {}", if *detach { "DETACH " } else { "" }, vars.join(", ")),
        }
    }
    pub fn is_write(&self) -> bool {
        matches!(self, Clause::Create(_) | Clause::Merge { .. } | Clause::Set(_) | Clause::Remove(_) | Clause::Delete { .. })
    }
}

#[derive(Clone, Debug, PartialEq)]
pub struct Query {
    pub clauses: Vec<Clause>,
    /// (all, rhs)
    pub union: Option<(bool, Box<Query>)>,
}
impl Query {
    pub fn new(clauses: Vec<Clause>) -> Query {
        Query { clauses, union: None }
    }
    pub fn print(&self) -> String {
        let mut s = self.clauses.iter().map(|c| c.print()).collect::<Vec<_>>().join(" ");
        if let Some((all, q)) = &self.union {
            s.push_str(if *all { " UNION ALL " } else { " UNION " });
            s.push_str(&q.print());
        }
        s
    }
    pub fn is_write(&self) -> bool {
        self.clauses.iter().any(|c| c.is_write())
    }
}
