//! svmc — bounded-exhaustive model checking harness for samyama-graph.
//! See /verif/DESIGN.md. Each property has its own binary under src/bin/.
pub mod engine;
pub mod model;

pub use engine::ctx::{run_check, Ctx, Level, Tier};
