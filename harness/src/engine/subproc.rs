//! subproc — run cases in re-exec'ed worker children of the same binary so that
//! aborts (allocation failure, stack overflow, SIGKILL crash points) become
//! recorded outcomes instead of killing the sweep.
//!
//! Protocol (line based): parent writes one case per line (no newlines inside a
//! case; cases are JSON or plain tokens); the worker answers `B` when it starts
//! the case and `E <result>` when done.
use std::io::{BufRead, BufReader, Write};
use std::process::{Child, ChildStdin, Command, Stdio};
use std::sync::mpsc::{channel, Receiver, RecvTimeoutError};
use std::time::Duration;

#[derive(Debug, Clone, PartialEq)]
pub enum Outcome {
    Done(String),
    /// The worker died while running the case.
    Died { signal: Option<i32>, code: Option<i32>, stderr_tail: String },
    Timeout,
}

/// In `main`: `if let Some(name) = subproc::worker_arg() { subproc::worker_main(|case| ...); }`
pub fn worker_arg() -> Option<String> {
    let a: Vec<String> = std::env::args().collect();
    if a.len() >= 3 && a[1] == "--worker" {
        Some(a[2].clone())
    } else {
        None
    }
}

pub fn worker_main(mut f: impl FnMut(&str) -> String) -> ! {
    let stdin = std::io::stdin();
    let mut out = std::io::stdout();
    for line in stdin.lock().lines() {
        let line = match line {
            Ok(l) => l,
            Err(_) => break,
        };
        let _ = writeln!(out, "B");
        let _ = out.flush();
        let r = f(&line);
        let _ = writeln!(out, "E {}", r.replace('\n', "\\n"));
        let _ = out.flush();
    }
    std::process::exit(0)
}

struct Worker {
    child: Child,
    stdin: ChildStdin,
    rx: Receiver<String>,
    err_rx: Receiver<String>,
}

fn spawn(name: &str, env: &[(String, String)], rlimit_as: Option<u64>) -> Worker {
    let exe = std::env::current_exe().expect("current_exe");
    let mut cmd = Command::new(exe);
    cmd.arg("--worker").arg(name).stdin(Stdio::piped()).stdout(Stdio::piped()).stderr(Stdio::piped());
    for (k, v) in env {
        cmd.env(k, v);
    }
    if let Some(lim) = rlimit_as {
        use std::os::unix::process::CommandExt;
        unsafe {
            cmd.pre_exec(move || {
                let r = libc::rlimit { rlim_cur: lim, rlim_max: lim };
                libc::setrlimit(libc::RLIMIT_AS, &r);
                // no core dumps
                let z = libc::rlimit { rlim_cur: 0, rlim_max: 0 };
                libc::setrlimit(libc::RLIMIT_CORE, &z);
                Ok(())
            });
        }
    }
    let mut child = cmd.spawn().expect("spawn worker");
    let stdin = child.stdin.take().unwrap();
    let stdout = child.stdout.take().unwrap();
    let stderr = child.stderr.take().unwrap();
    let (tx, rx) = channel();
    std::thread::spawn(move || {
        for l in BufReader::new(stdout).lines().flatten() {
            if tx.send(l).is_err() {
                break;
            }
        }
    });
    let (etx, err_rx) = channel();
    std::thread::spawn(move || {
        for l in BufReader::new(stderr).lines().flatten() {
            let _ = etx.send(l);
        }
    });
    Worker { child, stdin, rx, err_rx }
}

fn reap(mut w: Worker) -> (Option<i32>, Option<i32>, String) {
    let _ = w.child.kill();
    let st = w.child.wait().ok();
    let mut tail = vec![];
    while let Ok(l) = w.err_rx.try_recv() {
        tail.push(l);
    }
    let tail = tail.iter().rev().take(3).rev().cloned().collect::<Vec<_>>().join(" | ");
    use std::os::unix::process::ExitStatusExt;
    (st.and_then(|s| s.signal()), st.and_then(|s| s.code()), tail)
}

pub struct Opts {
    pub concurrency: usize,
    pub timeout: Duration,
    pub env: Vec<(String, String)>,
    /// RLIMIT_AS for the workers, bytes.
    pub rlimit_as: Option<u64>,
}
impl Default for Opts {
    fn default() -> Self {
        Opts { concurrency: 8, timeout: Duration::from_secs(20), env: vec![], rlimit_as: None }
    }
}

/// Run all cases; result[i] is the outcome of cases[i].
pub fn run_cases(worker: &str, cases: &[String], opts: &Opts) -> Vec<Outcome> {
    let n = cases.len();
    let conc = opts.concurrency.max(1).min(n.max(1));
    let next = std::sync::atomic::AtomicUsize::new(0);
    let results: Vec<std::sync::Mutex<Option<Outcome>>> = (0..n).map(|_| std::sync::Mutex::new(None)).collect();
    std::thread::scope(|s| {
        for _ in 0..conc {
            s.spawn(|| {
                let mut w: Option<Worker> = None;
                loop {
                    let i = next.fetch_add(1, std::sync::atomic::Ordering::SeqCst);
                    if i >= n {
                        break;
                    }
                    if w.is_none() {
                        w = Some(spawn(worker, &opts.env, opts.rlimit_as));
                    }
                    let wk = w.as_mut().unwrap();
                    let line = cases[i].replace('\n', "\\n");
                    let sent = writeln!(wk.stdin, "{}", line).and_then(|_| wk.stdin.flush());
                    let outcome = if sent.is_err() {
                        let (sig, code, tail) = reap(w.take().unwrap());
                        Outcome::Died { signal: sig, code, stderr_tail: tail }
                    } else {
                        // expect B then E
                        let mut res = None;
                        let deadline = std::time::Instant::now() + opts.timeout;
                        loop {
                            let left = deadline.saturating_duration_since(std::time::Instant::now());
                            match wk.rx.recv_timeout(left) {
                                Ok(l) => {
                                    if l == "B" {
                                        continue;
                                    }
                                    if let Some(r) = l.strip_prefix("E ") {
                                        res = Some(Outcome::Done(r.replace("\\n", "\n")));
                                        break;
                                    }
                                    if l == "E" {
                                        res = Some(Outcome::Done(String::new()));
                                        break;
                                    }
                                    // stray stdout from the subject: ignore
                                }
                                Err(RecvTimeoutError::Timeout) => {
                                    let _ = reap(w.take().unwrap());
                                    res = Some(Outcome::Timeout);
                                    break;
                                }
                                Err(RecvTimeoutError::Disconnected) => {
                                    let (sig, code, tail) = reap(w.take().unwrap());
                                    res = Some(Outcome::Died { signal: sig, code, stderr_tail: tail });
                                    break;
                                }
                            }
                        }
                        res.unwrap()
                    };
                    *results[i].lock().unwrap() = Some(outcome);
                }
                if let Some(wk) = w {
                    drop(wk.stdin);
                    let mut c = wk.child;
                    let _ = c.wait();
                }
            });
        }
    });
    results.into_iter().map(|m| m.into_inner().unwrap().unwrap()).collect()
}
