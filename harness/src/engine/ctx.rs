//! Check context: tier/seed/replay parsing, violation collection, known-finding
//! attribution, evidence writing, exit codes (0 held / 1 violation / 2 machinery).
use serde_json::{json, Map, Value};
use std::collections::BTreeMap;
use std::path::PathBuf;
use std::sync::Mutex;
use std::time::Instant;

#[derive(Clone, Copy, PartialEq, Eq, Debug)]
pub enum Tier {
    Quick,
    Thorough,
}
impl Tier {
    pub fn as_str(&self) -> &'static str {
        match self {
            Tier::Quick => "quick",
            Tier::Thorough => "thorough",
        }
    }
    pub fn pick<T>(&self, q: T, t: T) -> T {
        match self {
            Tier::Quick => q,
            Tier::Thorough => t,
        }
    }
}

#[derive(Clone, Copy, PartialEq, Eq, Debug)]
pub enum Level {
    Exploration,
    FaultEnumeration,
    ModelChecking,
}
impl Level {
    pub fn as_str(&self) -> &'static str {
        match self {
            Level::Exploration => "exploration",
            Level::FaultEnumeration => "fault_enumeration",
            Level::ModelChecking => "model_checking",
        }
    }
}

#[derive(Clone, Debug)]
pub struct Finding {
    pub property: String,
    pub id: String,
    pub status: String, // "open" | "fixed"
    pub what: String,
}

struct VioGroup {
    count: u64,
    first: Value,
    msg: String,
}

pub struct Ctx {
    pub id: String,
    pub tier: Tier,
    pub seed: u64,
    pub level: Level,
    pub replay: Option<PathBuf>,
    pub verif_dir: PathBuf,
    start: Instant,
    findings: Vec<Finding>,
    /// signature -> group
    groups: Mutex<BTreeMap<String, VioGroup>>,
    coverage: Mutex<Map<String, Value>>,
    assumptions: Mutex<Vec<String>>,
    samples: Mutex<Vec<Value>>,
    notes: Mutex<Vec<String>>,
}

pub fn verif_dir() -> PathBuf {
    std::env::var("VERIF_DIR").map(PathBuf::from).unwrap_or_else(|_| PathBuf::from("/verif"))
}

fn load_findings(dir: &PathBuf) -> Vec<Finding> {
    // known_findings.txt plus every known_findings.d/*.txt (same format)
    let mut files = vec![dir.join("known_findings.txt")];
    if let Ok(rd) = std::fs::read_dir(dir.join("known_findings.d")) {
        let mut extra: Vec<PathBuf> = rd.flatten().map(|e| e.path()).filter(|p| p.extension().map(|x| x == "txt").unwrap_or(false)).collect();
        extra.sort();
        files.extend(extra);
    }
    let mut out = vec![];
    for p in files {
        if let Ok(s) = std::fs::read_to_string(&p) {
            for line in s.lines() {
                let line = line.trim();
                if line.is_empty() || line.starts_with('#') || line.starts_with("fixed:") {
                    continue;
                }
                match serde_json::from_str::<Value>(line) {
                    Ok(v) => out.push(Finding {
                        property: v["property"].as_str().unwrap_or("").to_string(),
                        id: v["id"].as_str().unwrap_or("").to_string(),
                        status: v["status"].as_str().unwrap_or("open").to_string(),
                        what: v["what"].as_str().unwrap_or("").to_string(),
                    }),
                    Err(e) => {
                        println!("MACHINERY: bad line in {}: {e}: {line}", p.display());
                        std::process::exit(2);
                    }
                }
            }
        }
    }
    out
}

impl Ctx {
    pub fn quick(&self) -> bool {
        self.tier == Tier::Quick
    }
    /// Record a violation. `sig` is the finding signature (class) the check
    /// attributes this case to: a region predicate over the case AND a symptom
    /// class, computed by the check. If `sig` is listed as an open known
    /// finding for this property it is reported as KNOWN-FINDING, otherwise as
    /// VIOLATION. Only the first witness per signature is kept (explorers go
    /// simplest-first, so it is the smallest).
    pub fn violation(&self, sig: &str, msg: impl Into<String>, witness: Value) {
        let mut g = self.groups.lock().unwrap();
        match g.get_mut(sig) {
            Some(v) => v.count += 1,
            None => {
                g.insert(sig.to_string(), VioGroup { count: 1, first: witness, msg: msg.into() });
            }
        }
    }
    /// As `violation`, for a group of `n` cases that share one signature (first witness kept).
    pub fn violation_n(&self, sig: &str, msg: impl Into<String>, witness: Value, n: u64) {
        let mut g = self.groups.lock().unwrap();
        match g.get_mut(sig) {
            Some(v) => v.count += n,
            None => {
                g.insert(sig.to_string(), VioGroup { count: n, first: witness, msg: msg.into() });
            }
        }
    }
    pub fn violation_count(&self) -> u64 {
        self.groups.lock().unwrap().values().map(|g| g.count).sum()
    }
    pub fn has_sig(&self, sig: &str) -> bool {
        self.groups.lock().unwrap().contains_key(sig)
    }
    pub fn is_known(&self, sig: &str) -> bool {
        self.findings.iter().any(|f| f.property == self.id && f.id == sig && f.status == "open")
    }
    pub fn cov(&self, key: &str, v: impl Into<Value>) {
        self.coverage.lock().unwrap().insert(key.to_string(), v.into());
    }
    pub fn cov_add(&self, key: &str, n: u64) {
        let mut c = self.coverage.lock().unwrap();
        let cur = c.get(key).and_then(|v| v.as_u64()).unwrap_or(0);
        c.insert(key.to_string(), json!(cur + n));
    }
    pub fn assume(&self, s: impl Into<String>) {
        self.assumptions.lock().unwrap().push(s.into());
    }
    pub fn note(&self, s: impl Into<String>) {
        self.notes.lock().unwrap().push(s.into());
    }
    pub fn sample(&self, v: Value) {
        let mut s = self.samples.lock().unwrap();
        if s.len() < 8 {
            s.push(v);
        }
    }
    pub fn machinery(&self, msg: &str) -> ! {
        println!("MACHINERY property={} {}", self.id, msg);
        std::process::exit(2);
    }
}

pub static LAST_PANIC: Mutex<String> = Mutex::new(String::new());

/// Entry point of every check binary.
/// Usage: <bin> <quick|thorough> [--replay <file>]
pub fn run_check(id: &str, level: Level, body: impl FnOnce(&Ctx)) -> ! {
    let args: Vec<String> = std::env::args().collect();
    let mut tier = match std::env::var("VERIF_TIER").ok().as_deref() {
        Some("thorough") => Tier::Thorough,
        _ => Tier::Quick,
    };
    let mut replay = None;
    let mut i = 1;
    while i < args.len() {
        match args[i].as_str() {
            "quick" => tier = Tier::Quick,
            "thorough" => tier = Tier::Thorough,
            "--replay" => {
                i += 1;
                replay = args.get(i).map(PathBuf::from);
            }
            _ => {}
        }
        i += 1;
    }
    let seed = std::env::var("VERIF_SEED").ok().and_then(|s| s.parse::<u64>().ok()).unwrap_or(0);
    let dir = verif_dir();
    let ctx = Ctx {
        id: id.to_string(),
        tier,
        seed,
        level,
        replay,
        findings: load_findings(&dir),
        verif_dir: dir,
        start: Instant::now(),
        groups: Mutex::new(BTreeMap::new()),
        coverage: Mutex::new(Map::new()),
        assumptions: Mutex::new(vec![]),
        samples: Mutex::new(vec![]),
        notes: Mutex::new(vec![]),
    };
    // Quiet panics from the subject: every subject call is under catch_unwind and
    // a panic is an outcome; keep the message for witnesses only.
    std::panic::set_hook(Box::new(|info| {
        if let Ok(mut g) = LAST_PANIC.lock() {
            *g = format!("{}", info);
        }
    }));
    // A panic that escapes the body is a harness bug (subject calls are individually
    // guarded): machinery failure, never a verdict.
    if std::panic::catch_unwind(std::panic::AssertUnwindSafe(|| body(&ctx))).is_err() {
        let m = LAST_PANIC.lock().map(|g| g.clone()).unwrap_or_default();
        println!("MACHINERY property={} harness panicked: {}", ctx.id, m);
        std::process::exit(2);
    }
    finish(ctx)
}

fn finish(ctx: Ctx) -> ! {
    let wall = ctx.start.elapsed().as_secs_f64();
    let groups = ctx.groups.into_inner().unwrap();
    let is_replay = ctx.replay.is_some();
    let mut exit = 0;
    let mut n_unknown = 0u64;
    let mut known_lines = vec![];
    let mut vio_lines = vec![];
    let rdir = ctx.verif_dir.join("replays").join(&ctx.id);
    for (sig, g) in &groups {
        let known = ctx.findings.iter().find(|f| f.property == ctx.id && &f.id == sig && f.status == "open");
        if let Some(f) = known {
            known_lines.push(format!("KNOWN-FINDING: property={} {} [{}] ({} cases)", ctx.id, f.what, sig, g.count));
        } else {
            n_unknown += g.count;
            exit = 1;
            let _ = std::fs::create_dir_all(&rdir);
            let fname = sig.replace(|c: char| !c.is_ascii_alphanumeric() && c != '-' && c != '_', "_");
            let path = rdir.join(format!("{}.json", fname));
            let doc = json!({"property": ctx.id, "signature": sig, "message": g.msg, "cases": g.count, "witness": g.first});
            let _ = std::fs::write(&path, serde_json::to_string_pretty(&doc).unwrap());
            vio_lines.push(format!("VIOLATION property={} replay={} sig={} cases={} :: {}", ctx.id, path.display(), sig, g.count, g.msg.replace('\n', " ")));
        }
    }
    for l in &known_lines {
        println!("{l}");
    }
    for l in &vio_lines {
        println!("{l}");
    }
    if !is_replay {
        let mut cov = ctx.coverage.into_inner().unwrap();
        let samples = ctx.samples.into_inner().unwrap();
        if !cov.contains_key("samples") {
            cov.insert("samples".into(), Value::Array(samples));
        }
        let known_cases: u64 = groups
            .iter()
            .filter(|(s, _)| ctx.findings.iter().any(|f| f.property == ctx.id && &f.id == *s && f.status == "open"))
            .map(|(_, g)| g.count)
            .sum();
        cov.insert("cases_in_known_regions".into(), json!(known_cases));
        cov.insert(
            "known_findings_hit".into(),
            json!(groups.keys().filter(|s| ctx.findings.iter().any(|f| f.property == ctx.id && &f.id == *s && f.status == "open")).collect::<Vec<_>>()),
        );
        let notes = ctx.notes.into_inner().unwrap();
        if !notes.is_empty() {
            cov.insert("notes".into(), json!(notes));
        }
        let ev = json!({
            "property_id": ctx.id,
            "tier": ctx.tier.as_str(),
            "seed": ctx.seed,
            "level": ctx.level.as_str(),
            "coverage": Value::Object(cov),
            "assumptions": ctx.assumptions.into_inner().unwrap(),
            "wall_s": wall,
            "violations": n_unknown,
        });
        let edir = ctx.verif_dir.join("evidence");
        let _ = std::fs::create_dir_all(&edir);
        if let Err(e) = std::fs::write(edir.join(format!("{}.json", ctx.id)), serde_json::to_string_pretty(&ev).unwrap()) {
            eprintln!("MACHINERY cannot write evidence: {e}");
            std::process::exit(2);
        }
    }
    println!("RESULT property={} tier={} violations={} known_groups={} wall_s={:.1}", ctx.id, ctx.tier.as_str(), n_unknown, known_lines.len(), wall);
    std::process::exit(exit)
}

/// Run a subject call; a panic becomes Err(message).
pub fn guarded<T>(f: impl FnOnce() -> T) -> Result<T, String> {
    match std::panic::catch_unwind(std::panic::AssertUnwindSafe(f)) {
        Ok(v) => Ok(v),
        Err(e) => Err(if let Some(s) = e.downcast_ref::<&str>() {
            s.to_string()
        } else if let Some(s) = e.downcast_ref::<String>() {
            s.clone()
        } else {
            "panic".to_string()
        }),
    }
}
