//! sched — controlled scheduler for real OS threads at hook points (C18).
//! Filled in by the C18 check.
