//! Counting global allocator (opt-in per binary via `#[global_allocator]`).
use std::alloc::{GlobalAlloc, Layout, System};
use std::sync::atomic::{AtomicBool, AtomicUsize, Ordering};

pub struct Counting;
static CUR: AtomicUsize = AtomicUsize::new(0);
static PEAK: AtomicUsize = AtomicUsize::new(0);
static LARGEST: AtomicUsize = AtomicUsize::new(0);
/// When set, a single allocation request above this many bytes is refused (returns null
/// -> Rust aborts via handle_alloc_error) *after* recording it; 0 = no cap.
static CAP: AtomicUsize = AtomicUsize::new(0);
static CAP_TRIPPED: AtomicBool = AtomicBool::new(false);

unsafe impl GlobalAlloc for Counting {
    unsafe fn alloc(&self, l: Layout) -> *mut u8 {
        let sz = l.size();
        LARGEST.fetch_max(sz, Ordering::Relaxed);
        let cap = CAP.load(Ordering::Relaxed);
        if cap != 0 && sz > cap {
            CAP_TRIPPED.store(true, Ordering::Relaxed);
            return std::ptr::null_mut();
        }
        let p = System.alloc(l);
        if !p.is_null() {
            let c = CUR.fetch_add(sz, Ordering::Relaxed) + sz;
            PEAK.fetch_max(c, Ordering::Relaxed);
        }
        p
    }
    unsafe fn dealloc(&self, p: *mut u8, l: Layout) {
        CUR.fetch_sub(l.size(), Ordering::Relaxed);
        System.dealloc(p, l)
    }
    unsafe fn realloc(&self, p: *mut u8, l: Layout, new: usize) -> *mut u8 {
        LARGEST.fetch_max(new, Ordering::Relaxed);
        let cap = CAP.load(Ordering::Relaxed);
        if cap != 0 && new > cap {
            CAP_TRIPPED.store(true, Ordering::Relaxed);
            return std::ptr::null_mut();
        }
        let q = System.realloc(p, l, new);
        if !q.is_null() {
            if new >= l.size() {
                let c = CUR.fetch_add(new - l.size(), Ordering::Relaxed) + (new - l.size());
                PEAK.fetch_max(c, Ordering::Relaxed);
            } else {
                CUR.fetch_sub(l.size() - new, Ordering::Relaxed);
            }
        }
        q
    }
}
pub fn reset_peak() {
    PEAK.store(CUR.load(Ordering::Relaxed), Ordering::Relaxed);
    LARGEST.store(0, Ordering::Relaxed);
}
pub fn current() -> usize {
    CUR.load(Ordering::Relaxed)
}
pub fn peak() -> usize {
    PEAK.load(Ordering::Relaxed)
}
pub fn largest_request() -> usize {
    LARGEST.load(Ordering::Relaxed)
}
pub fn set_cap(bytes: usize) {
    CAP.store(bytes, Ordering::Relaxed);
}
pub fn cap_tripped() -> bool {
    CAP_TRIPPED.load(Ordering::Relaxed)
}
