pub mod ctx;
pub mod hx;
pub mod odometer;
pub mod subproc;
pub mod alloc;
pub mod sched;
