//! Deterministic bounded-exhaustive enumeration helpers (simplest first).

/// All sequences of length exactly `len` over 0..radix, lexicographic.
pub fn sequences(radix: usize, len: usize) -> impl Iterator<Item = Vec<usize>> {
    let total = if radix == 0 && len > 0 { 0 } else { (radix as u128).pow(len as u32) };
    (0..total).map(move |mut i| {
        let mut v = vec![0usize; len];
        for k in (0..len).rev() {
            v[k] = (i % radix as u128) as usize;
            i /= radix as u128;
        }
        v
    })
}

/// All sequences of length 0..=max_len.
pub fn sequences_upto(radix: usize, max_len: usize) -> impl Iterator<Item = Vec<usize>> {
    (0..=max_len).flat_map(move |l| sequences(radix, l))
}

/// Mixed radix: all vectors v with v[i] < radices[i].
pub fn mixed(radices: Vec<usize>) -> impl Iterator<Item = Vec<usize>> {
    let total: u128 = radices.iter().map(|&r| r as u128).product();
    (0..total).map(move |mut i| {
        let mut v = vec![0usize; radices.len()];
        for k in (0..radices.len()).rev() {
            v[k] = (i % radices[k] as u128) as usize;
            i /= radices[k] as u128;
        }
        v
    })
}

/// All subsets of 0..n as bitmasks, by increasing popcount then value.
pub fn subsets_by_size(n: usize) -> Vec<u32> {
    let mut v: Vec<u32> = (0..(1u32 << n)).collect();
    v.sort_by_key(|m| (m.count_ones(), *m));
    v
}

/// All multisets (combinations with repetition) of size k from 0..n, as sorted index vectors.
pub fn multisets(n: usize, k: usize) -> Vec<Vec<usize>> {
    fn rec(n: usize, k: usize, start: usize, cur: &mut Vec<usize>, out: &mut Vec<Vec<usize>>) {
        if cur.len() == k {
            out.push(cur.clone());
            return;
        }
        for i in start..n {
            cur.push(i);
            rec(n, k, i, cur, out);
            cur.pop();
        }
    }
    let mut out = vec![];
    rec(n, k, 0, &mut vec![], &mut out);
    out
}

/// All permutations of 0..n (Heap order not needed; lexicographic).
pub fn permutations(n: usize) -> Vec<Vec<usize>> {
    fn rec(cur: &mut Vec<usize>, used: &mut Vec<bool>, n: usize, out: &mut Vec<Vec<usize>>) {
        if cur.len() == n {
            out.push(cur.clone());
            return;
        }
        for i in 0..n {
            if !used[i] {
                used[i] = true;
                cur.push(i);
                rec(cur, used, n, out);
                cur.pop();
                used[i] = false;
            }
        }
    }
    let mut out = vec![];
    rec(&mut vec![], &mut vec![false; n], n, &mut out);
    out
}

/// splitmix64 — used only for labelled sampling tails and tmp names.
pub struct Rng(pub u64);
impl Rng {
    pub fn next(&mut self) -> u64 {
        self.0 = self.0.wrapping_add(0x9E3779B97F4A7C15);
        let mut z = self.0;
        z = (z ^ (z >> 30)).wrapping_mul(0xBF58476D1CE4E5B9);
        z = (z ^ (z >> 27)).wrapping_mul(0x94D049BB133111EB);
        z ^ (z >> 31)
    }
    pub fn below(&mut self, n: usize) -> usize {
        (self.next() % n as u64) as usize
    }
}
