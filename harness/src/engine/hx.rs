//! hx — explicit-state history explorer over the REAL implementation.
//!
//! A state is the operation history that reaches it; the live subject is rebuilt
//! by replaying the history on a fresh subject. Level-synchronous BFS; successors
//! of a level are computed in parallel and deduplicated sequentially in frontier
//! order, so counts are deterministic whatever the thread schedule.
use rayon::prelude::*;
use serde_json::{json, Value};
use std::collections::{BTreeMap, HashSet};
use std::hash::Hash;

pub struct Step {
    /// (signature, message) for each disagreement found on this transition.
    pub violations: Vec<(String, String)>,
    /// Short label of what was observed (for distinct-outcome statistics).
    pub outcome: String,
}
impl Step {
    pub fn ok(outcome: impl Into<String>) -> Self {
        Step { violations: vec![], outcome: outcome.into() }
    }
}

pub trait Model: Sync {
    type Op: Clone + Send + Sync + std::fmt::Debug;
    type State;
    type Key: Hash + Eq + Send;
    fn init(&self) -> Self::State;
    /// Enabled operations in this state, simplest first.
    fn ops(&self, st: &Self::State) -> Vec<Self::Op>;
    /// Apply `op` to implementation and reference; when `check` compare every
    /// observation the property names.
    fn apply(&self, st: &mut Self::State, op: &Self::Op, check: bool) -> Step;
    /// Canonical key: reference state + implementation-only fields that decide futures.
    fn key(&self, st: &Self::State) -> Self::Key;
    fn op_name(&self, op: &Self::Op) -> String {
        let s = format!("{:?}", op);
        s.split(|c: char| c == '(' || c == '{' || c == ' ').next().unwrap_or("").to_string()
    }
    fn op_json(&self, op: &Self::Op) -> Value {
        json!(format!("{:?}", op))
    }
}

#[derive(Default, Debug, Clone)]
pub struct Stats {
    pub states: u64,
    pub transitions: u64,
    pub max_depth: usize,
    pub pruned_after_violation: u64,
    pub cap_hit: bool,
    pub per_depth_states: Vec<u64>,
    pub outcomes_per_op: BTreeMap<String, BTreeMap<String, u64>>,
    pub samples: Vec<Value>,
}
impl Stats {
    pub fn distinct_outcomes(&self) -> Value {
        let m: BTreeMap<_, _> = self.outcomes_per_op.iter().map(|(k, v)| (k.clone(), v.len())).collect();
        json!(m)
    }
}

pub struct Violation<Op> {
    pub sig: String,
    pub msg: String,
    pub history: Vec<Op>,
}

pub fn rebuild<M: Model>(m: &M, h: &[M::Op]) -> M::State {
    let mut st = m.init();
    for op in h {
        m.apply(&mut st, op, false);
    }
    st
}

/// Explore all histories up to `max_depth`, deduplicating on `Model::key`.
/// `on_violation` is called (sequentially, deterministic order) for every
/// violating transition; the successor of a violating transition is not expanded.
pub fn explore<M: Model>(
    m: &M,
    max_depth: usize,
    max_states: u64,
    mut on_violation: impl FnMut(Violation<M::Op>),
) -> Stats {
    let mut stats = Stats::default();
    let mut seen: HashSet<M::Key> = HashSet::new();
    let st0 = m.init();
    seen.insert(m.key(&st0));
    stats.states = 1;
    stats.per_depth_states.push(1);
    let mut frontier: Vec<Vec<M::Op>> = vec![vec![]];
    for depth in 1..=max_depth {
        if frontier.is_empty() {
            break;
        }
        // successors in parallel, per frontier element, results kept in order
        struct Succ<Op, K> {
            hist: Vec<Op>,
            key: Option<K>,
            step: Step,
            opname: String,
        }
        let results: Vec<Vec<Succ<M::Op, M::Key>>> = frontier
            .par_iter()
            .map(|h| {
                let base = rebuild(m, h);
                let ops = m.ops(&base);
                drop(base);
                let mut out = Vec::with_capacity(ops.len());
                for op in ops {
                    let mut st = rebuild(m, h);
                    // a panic of the subject inside a step is an outcome (and a violation), never a
                    // crash of the explorer
                    let opname_for_panic = m.op_name(&op);
                    let step = match std::panic::catch_unwind(std::panic::AssertUnwindSafe(|| m.apply(&mut st, &op, true))) {
                        Ok(s) => s,
                        Err(e) => {
                            let msg = if let Some(s) = e.downcast_ref::<&str>() { s.to_string() } else if let Some(s) = e.downcast_ref::<String>() { s.clone() } else { "panic".to_string() };
                            Step { violations: vec![(format!("panic:{opname_for_panic}"), format!("the implementation panicked: {msg}"))], outcome: "panic".into() }
                        }
                    };
                    let key = if step.violations.is_empty() {
                        match std::panic::catch_unwind(std::panic::AssertUnwindSafe(|| m.key(&st))) {
                            Ok(k) => Some(k),
                            Err(_) => None,
                        }
                    } else {
                        None
                    };
                    let step = if step.violations.is_empty() && key.is_none() {
                        Step { violations: vec![(format!("panic:{opname_for_panic}"), "the implementation panicked while its state was read".to_string())], outcome: "panic".into() }
                    } else {
                        step
                    };
                    let mut hist = h.clone();
                    let opname = m.op_name(&op);
                    hist.push(op);
                    out.push(Succ { hist, key, step, opname });
                }
                out
            })
            .collect();
        let mut next = vec![];
        let mut new_states = 0u64;
        for succs in results {
            for s in succs {
                stats.transitions += 1;
                *stats.outcomes_per_op.entry(s.opname).or_default().entry(s.step.outcome.clone()).or_default() += 1;
                if !s.step.violations.is_empty() {
                    stats.pruned_after_violation += 1;
                    for (sig, msg) in s.step.violations {
                        on_violation(Violation { sig, msg, history: s.hist.clone() });
                    }
                    continue;
                }
                let k = s.key.unwrap();
                if seen.insert(k) {
                    stats.states += 1;
                    new_states += 1;
                    if stats.samples.len() < 3 && (depth == 1 || depth == max_depth) {
                        stats.samples.push(json!({"depth": depth, "history": s.hist.iter().map(|o| m.op_json(o)).collect::<Vec<_>>(), "last_outcome": s.step.outcome}));
                    }
                    next.push(s.hist);
                }
            }
        }
        stats.per_depth_states.push(new_states);
        stats.max_depth = depth;
        if stats.states > max_states {
            stats.cap_hit = true;
            break;
        }
        frontier = next;
    }
    stats
}

/// Put the standard model_checking coverage keys into the evidence.
pub fn report(ctx: &crate::Ctx, stats: &Stats, alphabet: &str) {
    ctx.cov("states", stats.states);
    ctx.cov("transitions", stats.transitions);
    ctx.cov("traces_validated_against_impl", stats.transitions);
    ctx.cov("max_depth", stats.max_depth as u64);
    ctx.cov("per_depth_new_states", json!(stats.per_depth_states));
    ctx.cov("alphabet", alphabet);
    ctx.cov("distinct_outcomes_per_op", stats.distinct_outcomes());
    ctx.cov("cap_hit", stats.cap_hit);
    ctx.cov("exhaustive", !stats.cap_hit);
    ctx.cov("pruned_after_violation", stats.pruned_after_violation);
    for s in &stats.samples {
        ctx.sample(s.clone());
    }
}
