pub mod values;
pub mod graph;
