pub mod values;
