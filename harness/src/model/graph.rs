//! Reference property graph, dump of a GraphStore through its public read API,
//! construction of a GraphStore from a reference graph, isomorphism.
use super::values::LV;
use samyama::graph::{EdgeType, GraphStore, Label, NodeId, PropertyMap};
use std::collections::{BTreeMap, BTreeSet};

#[derive(Clone, Debug, PartialEq, Eq, PartialOrd, Ord, Hash, Default)]
pub struct RNode {
    pub labels: BTreeSet<String>,
    pub props: BTreeMap<String, LV>,
}
#[derive(Clone, Debug, PartialEq, Eq, PartialOrd, Ord, Hash)]
pub struct RRel {
    pub src: u64,
    pub dst: u64,
    pub ty: String,
    pub props: BTreeMap<String, LV>,
}
#[derive(Clone, Debug, PartialEq, Eq, PartialOrd, Ord, Hash, Default)]
pub struct RefGraph {
    pub nodes: BTreeMap<u64, RNode>,
    pub rels: BTreeMap<u64, RRel>,
    pub next_node: u64,
    pub next_rel: u64,
}

impl RefGraph {
    pub fn new() -> Self {
        RefGraph { nodes: BTreeMap::new(), rels: BTreeMap::new(), next_node: 1, next_rel: 1 }
    }
    pub fn add_node(&mut self, labels: &[&str], props: &[(&str, LV)]) -> u64 {
        let id = self.next_node;
        self.next_node += 1;
        self.nodes.insert(
            id,
            RNode { labels: labels.iter().map(|s| s.to_string()).collect(), props: props.iter().filter(|(_, v)| !v.is_null()).map(|(k, v)| (k.to_string(), v.clone())).collect() },
        );
        id
    }
    pub fn add_rel(&mut self, src: u64, dst: u64, ty: &str, props: &[(&str, LV)]) -> u64 {
        let id = self.next_rel;
        self.next_rel += 1;
        self.rels.insert(id, RRel { src, dst, ty: ty.to_string(), props: props.iter().filter(|(_, v)| !v.is_null()).map(|(k, v)| (k.to_string(), v.clone())).collect() });
        id
    }
    pub fn describe(&self) -> String {
        let ns: Vec<String> = self
            .nodes
            .iter()
            .map(|(id, n)| format!("(n{id}{}{})", n.labels.iter().map(|l| format!(":{l}")).collect::<String>(), if n.props.is_empty() { String::new() } else { format!(" {{{}}}", n.props.iter().map(|(k, v)| format!("{k}: {}", v.lit())).collect::<Vec<_>>().join(", ")) }))
            .collect();
        let rs: Vec<String> = self
            .rels
            .iter()
            .map(|(id, r)| format!("(n{})-[r{id}:{}{}]->(n{})", r.src, r.ty, if r.props.is_empty() { String::new() } else { format!(" {{{}}}", r.props.iter().map(|(k, v)| format!("{k}: {}", v.lit())).collect::<Vec<_>>().join(", ")) }, r.dst))
            .collect();
        format!("{} | {}", ns.join(" "), rs.join(" "))
    }
}

/// Id maps reference-id -> engine-id.
#[derive(Clone, Debug, Default)]
pub struct IdMap {
    pub node: BTreeMap<u64, u64>,
    pub rel: BTreeMap<u64, u64>,
}
impl IdMap {
    pub fn node_rev(&self) -> BTreeMap<u64, u64> {
        self.node.iter().map(|(a, b)| (*b, *a)).collect()
    }
    pub fn rel_rev(&self) -> BTreeMap<u64, u64> {
        self.rel.iter().map(|(a, b)| (*b, *a)).collect()
    }
}

fn pm(props: &BTreeMap<String, LV>) -> PropertyMap {
    props.iter().map(|(k, v)| (k.clone(), v.to_pv())).collect()
}

/// Build a GraphStore holding `g` through the store API. `compact_after` = number of
/// relationships (in id order) after which compact_adjacency() is called (None = never),
/// so the remaining relationships stay in the write buffer.
pub fn build(g: &RefGraph, compact_after: Option<usize>) -> (GraphStore, IdMap) {
    let mut s = GraphStore::new();
    let mut m = IdMap::default();
    for (id, n) in &g.nodes {
        let nid = s.create_node_with_labels(n.labels.iter().map(|l| Label::new(l.as_str())));
        for (k, v) in &n.props {
            s.set_node_property("default", nid, k.clone(), v.to_pv()).expect("set_node_property");
        }
        m.node.insert(*id, nid.as_u64());
    }
    let mut count = 0usize;
    if compact_after == Some(0) {
        s.compact_adjacency();
    }
    for (id, r) in &g.rels {
        let (a, b) = (NodeId::new(m.node[&r.src]), NodeId::new(m.node[&r.dst]));
        let eid = if r.props.is_empty() { s.create_edge(a, b, EdgeType::new(r.ty.as_str())) } else { s.create_edge_with_properties(a, b, EdgeType::new(r.ty.as_str()), pm(&r.props)) }.expect("create_edge");
        m.rel.insert(*id, eid.as_u64());
        count += 1;
        if compact_after == Some(count) {
            s.compact_adjacency();
        }
    }
    (s, m)
}

/// Full dump of a store through its public read API (engine ids).
pub fn dump(s: &GraphStore) -> RefGraph {
    let mut g = RefGraph::new();
    // one entry per node id: the version visible now
    let mut ids: BTreeSet<u64> = s.all_nodes().iter().map(|n| n.id.as_u64()).collect();
    ids.retain(|id| s.has_node(NodeId::new(*id)));
    for id in ids {
        let nid = NodeId::new(id);
        let n = s.get_node(nid).unwrap();
        // a stored null-valued property is kept: keys()/properties() can observe it
        let props: BTreeMap<String, LV> = s.node_properties_full(nid).iter().map(|(k, v)| (k.clone(), LV::from_pv(v))).collect();
        g.nodes.insert(id, RNode { labels: n.labels.iter().map(|l| l.as_str().to_string()).collect(), props });
        g.next_node = g.next_node.max(id + 1);
    }
    for e in s.all_edges() {
        let props: BTreeMap<String, LV> = e.properties.iter().map(|(k, v)| (k.clone(), LV::from_pv(v))).collect();
        g.rels.insert(e.id.as_u64(), RRel { src: e.source.as_u64(), dst: e.target.as_u64(), ty: e.edge_type.as_str().to_string(), props });
        g.next_rel = g.next_rel.max(e.id.as_u64() + 1);
    }
    g
}

/// Canonical form up to renaming of ids. Nodes are first partitioned by iterated colour
/// refinement (own content + multiset of incident relationships with the neighbour's colour);
/// isolated nodes need no permutation; the remaining ambiguity (nodes of equal colour) is resolved
/// by brute force over permutations within colour classes, taking the minimum.
/// Two graphs are isomorphic iff their canonical forms are equal.
pub type Canon = (Vec<RNode>, Vec<(usize, usize, String, BTreeMap<String, LV>)>);
pub fn canonical(g: &RefGraph) -> Canon {
    let ids: Vec<u64> = g.nodes.keys().copied().collect();
    let n = ids.len();
    let idx: BTreeMap<u64, usize> = ids.iter().enumerate().map(|(i, id)| (*id, i)).collect();
    // initial colour = rank of node content
    let mut contents: Vec<&RNode> = ids.iter().map(|id| &g.nodes[id]).collect();
    contents.sort();
    contents.dedup();
    let mut colour: Vec<usize> = ids.iter().map(|id| contents.iter().position(|c| **c == g.nodes[id]).unwrap()).collect();
    loop {
        let mut sigs: Vec<(usize, Vec<(u8, String, BTreeMap<String, LV>, usize)>)> = Vec::with_capacity(n);
        for (i, id) in ids.iter().enumerate() {
            let mut inc = vec![];
            for r in g.rels.values() {
                if r.src == *id {
                    inc.push((0u8, r.ty.clone(), r.props.clone(), idx.get(&r.dst).map(|j| colour[*j]).unwrap_or(usize::MAX)));
                }
                if r.dst == *id {
                    inc.push((1u8, r.ty.clone(), r.props.clone(), idx.get(&r.src).map(|j| colour[*j]).unwrap_or(usize::MAX)));
                }
            }
            inc.sort();
            sigs.push((colour[i], inc));
        }
        let mut uniq = sigs.clone();
        uniq.sort();
        uniq.dedup();
        let next: Vec<usize> = sigs.iter().map(|s| uniq.iter().position(|u| u == s).unwrap()).collect();
        if next == colour {
            break;
        }
        colour = next;
    }
    let connected: Vec<bool> = ids.iter().map(|id| g.rels.values().any(|r| r.src == *id || r.dst == *id)).collect();
    // order: by colour; classes of connected nodes with > 1 member are permuted
    let mut order: Vec<usize> = (0..n).collect();
    order.sort_by_key(|i| (colour[*i], *i));
    let mut work: u64 = 1;
    {
        let mut k = 0;
        while k < n {
            let mut j = k;
            while j < n && colour[order[j]] == colour[order[k]] {
                j += 1;
            }
            if connected[order[k]] {
                for f in 1..=(j - k) as u64 {
                    work = work.saturating_mul(f);
                }
            }
            k = j;
        }
    }
    if work > 50_000 {
        // too symmetric for brute force: return a form that is still invariant under renaming
        // only up to colour classes (NOT canonical) tagged so that it can never equal a real one;
        // callers that need a decision use `isomorphic`, which backtracks instead.
        let mut nodes: Vec<RNode> = order.iter().map(|i| g.nodes[&ids[*i]].clone()).collect();
        nodes.push(RNode { labels: [format!("__noncanonical__{:?}", ids)].into_iter().collect(), props: BTreeMap::new() });
        let pos: BTreeMap<u64, usize> = order.iter().enumerate().map(|(i, p)| (ids[*p], i)).collect();
        let mut rels: Vec<(usize, usize, String, BTreeMap<String, LV>)> = g.rels.values().map(|r| (*pos.get(&r.src).unwrap_or(&usize::MAX), *pos.get(&r.dst).unwrap_or(&usize::MAX), r.ty.clone(), r.props.clone())).collect();
        rels.sort();
        return (nodes, rels);
    }
    let mut best: Option<Canon> = None;
    let mut perm = order.clone();
    permute_classes(g, &ids, &colour, &connected, &mut perm, 0, &mut best);
    best.unwrap_or((vec![], vec![]))
}

fn permute_classes(g: &RefGraph, ids: &[u64], colour: &[usize], connected: &[bool], perm: &mut Vec<usize>, k: usize, best: &mut Option<Canon>) {
    let n = perm.len();
    if k == n {
        let pos: BTreeMap<u64, usize> = perm.iter().enumerate().map(|(i, p)| (ids[*p], i)).collect();
        let nodes: Vec<RNode> = perm.iter().map(|p| g.nodes[&ids[*p]].clone()).collect();
        let mut rels: Vec<(usize, usize, String, BTreeMap<String, LV>)> = g.rels.values().map(|r| (*pos.get(&r.src).unwrap_or(&usize::MAX), *pos.get(&r.dst).unwrap_or(&usize::MAX), r.ty.clone(), r.props.clone())).collect();
        rels.sort();
        let cand = (nodes, rels);
        if best.as_ref().map(|b| cand < *b).unwrap_or(true) {
            *best = Some(cand);
        }
        return;
    }
    if !connected[perm[k]] {
        // isolated nodes of one colour are interchangeable
        permute_classes(g, ids, colour, connected, perm, k + 1, best);
        return;
    }
    let mut j = k;
    while j < n && colour[perm[j]] == colour[perm[k]] {
        j += 1;
    }
    for i in k..j {
        perm.swap(k, i);
        permute_classes(g, ids, colour, connected, perm, k + 1, best);
        perm.swap(k, i);
    }
}

/// Isomorphism by backtracking (node content must match; relationship multisets must match
/// under the node mapping). Exact for any size; fast on the small graphs used here.
pub fn isomorphic(a: &RefGraph, b: &RefGraph) -> bool {
    if a.nodes.len() != b.nodes.len() || a.rels.len() != b.rels.len() {
        return false;
    }
    let mut ca: Vec<&RNode> = a.nodes.values().collect();
    let mut cb: Vec<&RNode> = b.nodes.values().collect();
    ca.sort();
    cb.sort();
    if ca != cb {
        return false;
    }
    let aid: Vec<u64> = a.nodes.keys().copied().collect();
    let bid: Vec<u64> = b.nodes.keys().copied().collect();
    // per-node signature: multiset of incident (direction, type, props, is_self_loop)
    let sig = |g: &RefGraph, id: u64| {
        let mut v: Vec<(u8, String, BTreeMap<String, LV>, bool)> = vec![];
        for r in g.rels.values() {
            if r.src == id {
                v.push((0, r.ty.clone(), r.props.clone(), r.dst == id));
            }
            if r.dst == id {
                v.push((1, r.ty.clone(), r.props.clone(), r.src == id));
            }
        }
        v.sort();
        v
    };
    let sa: Vec<_> = aid.iter().map(|i| sig(a, *i)).collect();
    let sb: Vec<_> = bid.iter().map(|i| sig(b, *i)).collect();
    fn rels_of(g: &RefGraph, map: &BTreeMap<u64, usize>) -> Vec<(usize, usize, String, BTreeMap<String, LV>)> {
        let mut v: Vec<_> = g.rels.values().map(|r| (map[&r.src], map[&r.dst], r.ty.clone(), r.props.clone())).collect();
        v.sort();
        v
    }
    let amap: BTreeMap<u64, usize> = aid.iter().enumerate().map(|(i, id)| (*id, i)).collect();
    let target = rels_of(a, &amap);
    // assign to each a-index i a b-node; partial check on relationships among assigned nodes
    fn rec(i: usize, n: usize, a: &RefGraph, b: &RefGraph, aid: &[u64], bid: &[u64], sa: &[Vec<(u8, String, BTreeMap<String, LV>, bool)>], sb: &[Vec<(u8, String, BTreeMap<String, LV>, bool)>], used: &mut Vec<bool>, assign: &mut Vec<usize>, target: &[(usize, usize, String, BTreeMap<String, LV>)]) -> bool {
        if i == n {
            let bmap: BTreeMap<u64, usize> = assign.iter().enumerate().map(|(ai, bj)| (bid[*bj], ai)).collect();
            let mut v: Vec<_> = b.rels.values().map(|r| (bmap[&r.src], bmap[&r.dst], r.ty.clone(), r.props.clone())).collect();
            v.sort();
            return v == target;
        }
        for j in 0..n {
            if used[j] || a.nodes[&aid[i]] != b.nodes[&bid[j]] || sa[i] != sb[j] {
                continue;
            }
            used[j] = true;
            assign.push(j);
            if rec(i + 1, n, a, b, aid, bid, sa, sb, used, assign, target) {
                return true;
            }
            assign.pop();
            used[j] = false;
        }
        false
    }
    let n = aid.len();
    rec(0, n, a, b, &aid, &bid, &sa, &sb, &mut vec![false; n], &mut vec![], &target)
}
