//! Reference property graph, dump of a GraphStore through its public read API,
//! construction of a GraphStore from a reference graph, isomorphism.
use super::values::LV;
use samyama::graph::{EdgeType, GraphStore, Label, NodeId, PropertyMap};
use std::collections::{BTreeMap, BTreeSet};

#[derive(Clone, Debug, PartialEq, Eq, PartialOrd, Ord, Hash, Default)]
pub struct RNode {
    pub labels: BTreeSet<String>,
    pub props: BTreeMap<String, LV>,
}
#[derive(Clone, Debug, PartialEq, Eq, PartialOrd, Ord, Hash)]
pub struct RRel {
    pub src: u64,
    pub dst: u64,
    pub ty: String,
    pub props: BTreeMap<String, LV>,
}
#[derive(Clone, Debug, PartialEq, Eq, PartialOrd, Ord, Hash, Default)]
pub struct RefGraph {
    pub nodes: BTreeMap<u64, RNode>,
    pub rels: BTreeMap<u64, RRel>,
    pub next_node: u64,
    pub next_rel: u64,
}

impl RefGraph {
    pub fn new() -> Self {
        RefGraph { nodes: BTreeMap::new(), rels: BTreeMap::new(), next_node: 1, next_rel: 1 }
    }
    pub fn add_node(&mut self, labels: &[&str], props: &[(&str, LV)]) -> u64 {
        let id = self.next_node;
        self.next_node += 1;
        self.nodes.insert(
            id,
            RNode { labels: labels.iter().map(|s| s.to_string()).collect(), props: props.iter().filter(|(_, v)| !v.is_null()).map(|(k, v)| (k.to_string(), v.clone())).collect() },
        );
        id
    }
    pub fn add_rel(&mut self, src: u64, dst: u64, ty: &str, props: &[(&str, LV)]) -> u64 {
        let id = self.next_rel;
        self.next_rel += 1;
        self.rels.insert(id, RRel { src, dst, ty: ty.to_string(), props: props.iter().filter(|(_, v)| !v.is_null()).map(|(k, v)| (k.to_string(), v.clone())).collect() });
        id
    }
    pub fn describe(&self) -> String {
        let ns: Vec<String> = self
            .nodes
            .iter()
            .map(|(id, n)| format!("(n{id}{}{})", n.labels.iter().map(|l| format!(":{l}")).collect::<String>(), if n.props.is_empty() { String::new() } else { format!(" {{{}}}", n.props.iter().map(|(k, v)| format!("{k}: {}", v.lit())).collect::<Vec<_>>().join(", ")) }))
            .collect();
        let rs: Vec<String> = self
            .rels
            .iter()
            .map(|(id, r)| format!("(n{})-[r{id}:{}{}]->(n{})", r.src, r.ty, if r.props.is_empty() { String::new() } else { format!(" {{{}}}", r.props.iter().map(|(k, v)| format!("{k}: {}", v.lit())).collect::<Vec<_>>().join(", ")) }, r.dst))
            .collect();
        format!("{} | {}", ns.join(" "), rs.join(" "))
    }
}

/// Id maps reference-id -> engine-id.
#[derive(Clone, Debug, Default)]
pub struct IdMap {
    pub node: BTreeMap<u64, u64>,
    pub rel: BTreeMap<u64, u64>,
}
impl IdMap {
    pub fn node_rev(&self) -> BTreeMap<u64, u64> {
        self.node.iter().map(|(a, b)| (*b, *a)).collect()
    }
    pub fn rel_rev(&self) -> BTreeMap<u64, u64> {
        self.rel.iter().map(|(a, b)| (*b, *a)).collect()
    }
}

fn pm(props: &BTreeMap<String, LV>) -> PropertyMap {
    props.iter().map(|(k, v)| (k.clone(), v.to_pv())).collect()
}

/// Build a GraphStore holding `g` through the store API. `compact_after` = number of
/// relationships (in id order) after which compact_adjacency() is called (None = never),
/// so the remaining relationships stay in the write buffer.
pub fn build(g: &RefGraph, compact_after: Option<usize>) -> (GraphStore, IdMap) {
    let mut s = GraphStore::new();
    let mut m = IdMap::default();
    for (id, n) in &g.nodes {
        let nid = s.create_node_with_labels(n.labels.iter().map(|l| Label::new(l.as_str())));
        for (k, v) in &n.props {
            s.set_node_property("default", nid, k.clone(), v.to_pv()).expect("set_node_property");
        }
        m.node.insert(*id, nid.as_u64());
    }
    let mut count = 0usize;
    if compact_after == Some(0) {
        s.compact_adjacency();
    }
    for (id, r) in &g.rels {
        let (a, b) = (NodeId::new(m.node[&r.src]), NodeId::new(m.node[&r.dst]));
        let eid = if r.props.is_empty() { s.create_edge(a, b, EdgeType::new(r.ty.as_str())) } else { s.create_edge_with_properties(a, b, EdgeType::new(r.ty.as_str()), pm(&r.props)) }.expect("create_edge");
        m.rel.insert(*id, eid.as_u64());
        count += 1;
        if compact_after == Some(count) {
            s.compact_adjacency();
        }
    }
    (s, m)
}

/// Full dump of a store through its public read API (engine ids).
pub fn dump(s: &GraphStore) -> RefGraph {
    let mut g = RefGraph::new();
    // one entry per node id: the version visible now
    let mut ids: BTreeSet<u64> = s.all_nodes().iter().map(|n| n.id.as_u64()).collect();
    ids.retain(|id| s.has_node(NodeId::new(*id)));
    for id in ids {
        let nid = NodeId::new(id);
        let n = s.get_node(nid).unwrap();
        let props: BTreeMap<String, LV> = s.node_properties_full(nid).iter().filter(|(_, v)| !v.is_null()).map(|(k, v)| (k.clone(), LV::from_pv(v))).collect();
        g.nodes.insert(id, RNode { labels: n.labels.iter().map(|l| l.as_str().to_string()).collect(), props });
        g.next_node = g.next_node.max(id + 1);
    }
    for e in s.all_edges() {
        let props: BTreeMap<String, LV> = e.properties.iter().filter(|(_, v)| !v.is_null()).map(|(k, v)| (k.clone(), LV::from_pv(v))).collect();
        g.rels.insert(e.id.as_u64(), RRel { src: e.source.as_u64(), dst: e.target.as_u64(), ty: e.edge_type.as_str().to_string(), props });
        g.next_rel = g.next_rel.max(e.id.as_u64() + 1);
    }
    g
}

/// Canonical form up to renaming of ids: brute force over node permutations (≤ 7 nodes).
/// Two graphs are isomorphic iff their canonical forms are equal.
pub fn canonical(g: &RefGraph) -> (Vec<RNode>, Vec<(usize, usize, String, BTreeMap<String, LV>)>) {
    let ids: Vec<u64> = g.nodes.keys().copied().collect();
    let n = ids.len();
    assert!(n <= 7, "canonical(): too many nodes for brute force");
    // sort nodes by their own content first; permute only within equal-content classes
    let mut order: Vec<usize> = (0..n).collect();
    order.sort_by(|a, b| g.nodes[&ids[*a]].cmp(&g.nodes[&ids[*b]]));
    let mut best: Option<(Vec<RNode>, Vec<(usize, usize, String, BTreeMap<String, LV>)>)> = None;
    let mut perm = order.clone();
    permute_classes(g, &ids, &mut perm, 0, &mut best);
    best.unwrap_or((vec![], vec![]))
}

fn permute_classes(
    g: &RefGraph,
    ids: &[u64],
    perm: &mut Vec<usize>,
    k: usize,
    best: &mut Option<(Vec<RNode>, Vec<(usize, usize, String, BTreeMap<String, LV>)>)>,
) {
    let n = perm.len();
    if k == n {
        let pos: BTreeMap<u64, usize> = perm.iter().enumerate().map(|(i, p)| (ids[*p], i)).collect();
        let nodes: Vec<RNode> = perm.iter().map(|p| g.nodes[&ids[*p]].clone()).collect();
        let mut rels: Vec<(usize, usize, String, BTreeMap<String, LV>)> = g.rels.values().map(|r| (*pos.get(&r.src).unwrap_or(&usize::MAX), *pos.get(&r.dst).unwrap_or(&usize::MAX), r.ty.clone(), r.props.clone())).collect();
        rels.sort();
        let cand = (nodes, rels);
        if best.as_ref().map(|b| cand < *b).unwrap_or(true) {
            *best = Some(cand);
        }
        return;
    }
    // positions k..j share the same node content: try each as the k-th
    let mut j = k;
    while j < n && g.nodes[&ids[perm[j]]] == g.nodes[&ids[perm[k]]] {
        j += 1;
    }
    for i in k..j {
        perm.swap(k, i);
        // keep class contiguous: after the swap positions k+1..j are still the class
        permute_classes(g, ids, perm, k + 1, best);
        perm.swap(k, i);
    }
}

pub fn isomorphic(a: &RefGraph, b: &RefGraph) -> bool {
    a.nodes.len() == b.nodes.len() && a.rels.len() == b.rels.len() && canonical(a) == canonical(b)
}
