//! Logical-value normalisation (DESIGN §1.3).
