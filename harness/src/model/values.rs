//! Logical-value normalisation (DESIGN §1.3): results are compared as logical
//! values, never by Debug text or Rust `==` of engine types.
use samyama::graph::PropertyValue;
use samyama::query::executor::record::Value;
use std::collections::BTreeMap;

#[derive(Clone, Debug, PartialEq, Eq, PartialOrd, Ord, Hash)]
pub enum LV {
    Null,
    Bool(bool),
    Int(i64),
    /// f64 by bits (floats are compared bit-exactly; the value domains are dyadic)
    Float(u64),
    Str(String),
    List(Vec<LV>),
    Map(BTreeMap<String, LV>),
    Node(u64),
    Rel(u64),
    Path(Vec<u64>, Vec<u64>),
    /// temporal / vector / duration: kept as an opaque tagged rendering
    Other(String),
}

impl LV {
    pub fn f(x: f64) -> LV {
        LV::Float(x.to_bits())
    }
    pub fn s(x: &str) -> LV {
        LV::Str(x.to_string())
    }
    pub fn as_f64(&self) -> Option<f64> {
        match self {
            LV::Int(i) => Some(*i as f64),
            LV::Float(b) => Some(f64::from_bits(*b)),
            _ => None,
        }
    }
    pub fn is_null(&self) -> bool {
        matches!(self, LV::Null)
    }
    pub fn is_number(&self) -> bool {
        matches!(self, LV::Int(_) | LV::Float(_))
    }
    pub fn from_pv(p: &PropertyValue) -> LV {
        match p {
            PropertyValue::Null => LV::Null,
            PropertyValue::Boolean(b) => LV::Bool(*b),
            PropertyValue::Integer(i) => LV::Int(*i),
            PropertyValue::Float(f) => LV::Float(f.to_bits()),
            PropertyValue::String(s) => LV::Str(s.clone()),
            PropertyValue::Array(a) => LV::List(a.iter().map(LV::from_pv).collect()),
            PropertyValue::Map(m) => LV::Map(m.iter().map(|(k, v)| (k.clone(), LV::from_pv(v))).collect()),
            PropertyValue::DateTime(t) => LV::Other(format!("datetime:{t}")),
            PropertyValue::Vector(v) => LV::Other(format!("vector:{:?}", v.iter().map(|x| x.to_bits()).collect::<Vec<_>>())),
            PropertyValue::Duration { months, days, seconds, nanos } => LV::Other(format!("duration:{months}:{days}:{seconds}:{nanos}")),
        }
    }
    pub fn to_pv(&self) -> PropertyValue {
        match self {
            LV::Null => PropertyValue::Null,
            LV::Bool(b) => PropertyValue::Boolean(*b),
            LV::Int(i) => PropertyValue::Integer(*i),
            LV::Float(b) => PropertyValue::Float(f64::from_bits(*b)),
            LV::Str(s) => PropertyValue::String(s.clone()),
            LV::List(l) => PropertyValue::Array(l.iter().map(|x| x.to_pv()).collect()),
            LV::Map(m) => PropertyValue::Map(m.iter().map(|(k, v)| (k.clone(), v.to_pv())).collect()),
            LV::Node(_) | LV::Rel(_) | LV::Path(..) | LV::Other(_) => PropertyValue::Null,
        }
    }
    pub fn from_value(v: &Value) -> LV {
        match v {
            Value::Null => LV::Null,
            Value::Node(id, _) | Value::NodeRef(id) => LV::Node(id.as_u64()),
            Value::Edge(id, _) | Value::EdgeRef(id, ..) => LV::Rel(id.as_u64()),
            Value::Property(p) => LV::from_pv(p),
            Value::Path { nodes, edges } => LV::Path(nodes.iter().map(|n| n.as_u64()).collect(), edges.iter().map(|e| e.as_u64()).collect()),
            Value::List(l) => LV::List(l.iter().map(LV::from_value).collect()),
            Value::Map(m) => LV::Map(m.iter().map(|(k, v)| (k.clone(), LV::from_value(v))).collect()),
        }
    }
    /// Cypher literal text for this value (only for literal-able values).
    pub fn lit(&self) -> String {
        match self {
            LV::Null => "null".into(),
            LV::Bool(b) => format!("{b}"),
            LV::Int(i) => format!("{i}"),
            LV::Float(b) => {
                let f = f64::from_bits(*b);
                if f.fract() == 0.0 && f.is_finite() {
                    format!("{f:.1}")
                } else {
                    format!("{f}")
                }
            }
            LV::Str(s) => format!("'{}'", s.replace('\\', "\\\\").replace('\'', "\\'")),
            LV::List(l) => format!("[{}]", l.iter().map(|x| x.lit()).collect::<Vec<_>>().join(", ")),
            LV::Map(m) => format!("{{{}}}", m.iter().map(|(k, v)| format!("{k}: {}", v.lit())).collect::<Vec<_>>().join(", ")),
            _ => "null".into(),
        }
    }
    /// Map entity ids through `f` (used to translate engine ids to reference ids).
    pub fn map_ids(&self, nf: &dyn Fn(u64) -> u64, rf: &dyn Fn(u64) -> u64) -> LV {
        match self {
            LV::Node(n) => LV::Node(nf(*n)),
            LV::Rel(r) => LV::Rel(rf(*r)),
            LV::Path(ns, rs) => LV::Path(ns.iter().map(|n| nf(*n)).collect(), rs.iter().map(|r| rf(*r)).collect()),
            LV::List(l) => LV::List(l.iter().map(|x| x.map_ids(nf, rf)).collect()),
            LV::Map(m) => LV::Map(m.iter().map(|(k, v)| (k.clone(), v.map_ids(nf, rf))).collect()),
            o => o.clone(),
        }
    }
}

/// Rows of a RecordBatch as logical values, by column position.
pub fn rows_of(batch: &samyama::query::executor::record::RecordBatch) -> Vec<Vec<LV>> {
    batch
        .records
        .iter()
        .map(|r| batch.columns.iter().map(|c| r.get(c).map(LV::from_value).unwrap_or(LV::Null)).collect())
        .collect()
}

pub fn bag<T: Ord + Clone>(v: &[T]) -> Vec<T> {
    let mut v = v.to_vec();
    v.sort();
    v
}
