#!/usr/bin/env python3
"""Merge the manifest JSON record found in each reports/CXX.md into tools/checks.json
(records already present for an id are replaced only with --force)."""
import json, re, glob, sys, os
force = '--force' in sys.argv
p = '/verif/tools/checks.json'
checks = json.load(open(p))
have = {c['id'] for c in checks}
for f in sorted(glob.glob('/verif/reports/C*.md')):
    s = open(f).read()
    rec = None
    # candidate JSON objects: from a '{' that is followed by "id" to the matching '}'
    for m in re.finditer(r'\{\s*"id"\s*:', s):
        depth = 0; i = m.start()
        for j in range(i, len(s)):
            if s[j] == '{': depth += 1
            elif s[j] == '}':
                depth -= 1
                if depth == 0:
                    try:
                        r = json.loads(s[i:j+1])
                        if all(k in r for k in ('id', 'level', 'text', 'note', 'technique')):
                            rec = r
                    except Exception:
                        pass
                    break
    cid = os.path.basename(f)[:-3]
    if rec is None:
        print('NO RECORD in', f); continue
    rec['id'] = cid
    if rec.get('engine') not in ('hx', 'odometer', 'sched'):
        rec['engine'] = 'odometer'
    if rec['level'] not in ('model_checking', 'fault_enumeration', 'exploration'):
        print('bad level', cid, rec['level']); continue
    if cid in have and not force:
        continue
    checks = [c for c in checks if c['id'] != cid] + [rec]
    print('merged', cid)
json.dump(sorted(checks, key=lambda c: c['id']), open(p, 'w'), indent=1)
