#!/bin/bash
# usage: /tmp/seed-private-target.sh <ID>   -> /tmp/seed-<ID>/target: big dependency artefacts hard-linked from the
# prebuilt base; every fingerprint / build-script output / lock file a PRIVATE copy; all samyama artefacts removed
ID=$1; T=/tmp/seed-$ID/target
[ -d $T ] && { echo "exists: $T"; exit 0; }
[ -f /tmp/seed-base-target/.ready ] || { echo "base not ready yet, retry in a few minutes"; exit 1; }
cp -al /tmp/seed-base-target $T
rm -f $T/debug/.cargo-lock $T/.ready
find $T/debug/deps $T/debug/.fingerprint $T/debug/build $T/debug/incremental $T/debug/examples -maxdepth 1 \( -iname '*samyama*' -o -iname 'seed_*' \) -exec rm -rf {} + 2>/dev/null
rm -rf $T/debug/incremental
find $T/debug/.fingerprint $T/debug/build -type f -links +1 -exec sh -c 'cp -p "$1" "$1.__p" && mv -f "$1.__p" "$1"' _ {} \;
find $T -type f -size -128k -links +1 -exec sh -c 'cp -p "$1" "$1.__p" && mv -f "$1.__p" "$1"' _ {} \;
echo "ready: export CARGO_TARGET_DIR=$T CARGO_INCREMENTAL=0"
