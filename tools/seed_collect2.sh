#!/bin/bash
# usage: tools/seed_collect2.sh <tag> <ID> <suffix>   copies /tmp/seed-<tag>-<ID>/out into /verif/seeded/<ID><suffix>/
TAG=$1; ID=$2; SUF=$3; S=/tmp/seed-$TAG-$ID/out; D=/verif/seeded/$ID$SUF
mkdir -p $D; cp $S/patch.diff $D/; rm -rf $D/demo; cp -r $S/demo $D/demo; cp $S/meta.json $D/meta_agent.json 2>/dev/null
ls $D $D/demo | tr '\n' ' '; echo
