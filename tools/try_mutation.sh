#!/bin/bash
# usage: tools/try_mutation.sh <pw-name> <patch> <check-id> [tier]
# Applies a mutation patch in the private worktree /tmp/pw-<name>/repo, rebuilds the private
# harness bin, runs the check with VERIF_DIR=/tmp/pw-<name>/out, reverts. Prints the verdict.
N=$1; P=$(realpath "$2"); ID=$3; TIER=${4:-quick}
D=/tmp/pw-$N; BIN=$(echo $ID | tr A-Z a-z)
cd $D/repo && git checkout -q -- . && git apply "$P" || { echo "APPLY-FAILED $P"; exit 3; }
rsync -a --delete --exclude target /verif/harness/src/ $D/harness/src/
grep -rl '"/repo' $D/harness/src 2>/dev/null | xargs -r sed -i "s#\"/repo#\"$D/repo#g"
mkdir -p $D/out; rm -rf $D/out/known_findings.d; cp -r /verif/known_findings.txt /verif/known_findings.d $D/out/ 2>/dev/null; mkdir -p $D/out/baselines; cp -r /verif/baselines/. $D/out/baselines/ 2>/dev/null
cd $D/harness && cargo build --release --offline --bin $BIN $( [[ " C19 C20 C22 C23 " == *" $ID "* ]] && echo --bin samyama_server_shim ) 2>&1 | grep -E "^error" -A10 | head -20
VERIF_DIR=$D/out timeout 1800 $D/target/release/$BIN $TIER > $D/out/run.log 2>&1; RC=$?
grep -E "^VIOLATION" $D/out/run.log | head -3 | cut -c1-300
echo "MUTATION $(basename $P) check=$ID tier=$TIER exit=$RC $(grep -c '^VIOLATION' $D/out/run.log) violation-lines"
cd $D/repo && git checkout -q -- .
