#!/opt/veriftools/pyvenv/bin/python
import json, jsonschema, glob, sys
ok = True
jsonschema.validate(json.load(open('/verif/MANIFEST.json')), json.load(open('/root/.vp/MANIFEST.schema.json')))
sch = json.load(open('/root/.vp/EVIDENCE.schema.json'))
for f in sorted(glob.glob('/verif/evidence/*.json')):
    try:
        jsonschema.validate(json.load(open(f)), sch)
    except Exception as e:
        ok = False
        print("INVALID", f, str(e)[:300])
print("valid" if ok else "INVALID")
sys.exit(0 if ok else 1)
