#!/usr/bin/env python3
"""Print the commit message that starts with the given title line in reports/<ID>.md:
the title plus the paragraph that follows (until a blank line / code fence / next bullet)."""
import sys, re
rep, title = sys.argv[1], sys.argv[2]
s = open(rep).read()
i = s.index(title)
# fenced block?
before = s[:i]
if before.rstrip().endswith('```'):
    j = s.index('```', i)
    print(s[i:j].rstrip()); sys.exit(0)
# inline (backticks / italics): title only, then following prose up to blank line
line_end = s.index('\n', i)
t = s[i:line_end].rstrip('`*. ')
rest = s[line_end+1:]
para = []
for l in rest.split('\n'):
    if not l.strip() or l.lstrip().startswith(('*', '-', '#', '`', '|', '1.', '2.', '3.', '4.')):
        break
    para.append(l.strip())
body = ' '.join(para).strip()
body = re.sub(r'[`*]', '', body)
print(t + ('\n\n' + body if body else ''))
