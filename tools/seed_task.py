#!/usr/bin/env python3
"""usage: tools/seed_task.py <wave-tag> <ID>...  Writes /tmp/seed-<tag>-<ID>/TASK.md from the template of an
earlier wave (/tmp/seed-<ID>/TASK.md, which contains nothing but the property text and working rules),
renamed to the new scratch directory, plus one sentence naming the function an earlier participant
already changed (from that participant's own meta.json) so the new change uses another mechanism."""
import sys, json, os, re
tag = sys.argv[1]
for pid in sys.argv[2:]:
    src = open(f'/verif/tools/seed_tasks/{pid}.md').read()
    new = f'{tag}-{pid}'
    t = src.replace(f'/tmp/seed-{pid}', f'/tmp/seed-{new}').replace(f'seed-private-target.sh {pid}', f'seed-private-target.sh {new}')
    t = t.replace(f'seed_{pid.lower()}', f'seed_{tag}_{pid.lower()}')
    prev = json.load(open(f'/verif/seeded/{pid}/meta_agent.json'))
    first = re.split(r'(?<=[.:;])\s', prev.get('summary', ''))[0][:260]
    note = (f"\n\nAn earlier participant already produced a change for this property in {', '.join(prev.get('files_touched', []))} "
            f"(\"{first}\"). Choose a **different function and a different mechanism**, preferably in a different file among those the property is anchored in or that its behaviour depends on.\n")
    t = t.replace('\n## How to work', note + '\n## How to work', 1)
    os.makedirs(f'/tmp/seed-{new}/out/demo', exist_ok=True)
    open(f'/tmp/seed-{new}/TASK.md', 'w').write(t)
    print('wrote', f'/tmp/seed-{new}/TASK.md')
