#!/bin/bash
# usage: tools/seed_collect.sh <ID>   copies /tmp/seed-<ID>/out into /verif/seeded/<ID>/
ID=$1; S=/tmp/seed-$ID/out; D=/verif/seeded/$ID
mkdir -p $D; cp $S/patch.diff $D/; rm -rf $D/demo; cp -r $S/demo $D/demo; cp $S/meta.json $D/meta_agent.json 2>/dev/null
ls $D $D/demo | tr '\n' ' '; echo
