#!/usr/bin/env python3
"""Regenerate the table at the end of /verif/seeded/README.md from seeded/<ID>/meta.json."""
import json, os, re
root = '/verif/seeded'
head = open(f'{root}/README.md').read().split('\n| seed |')[0].rstrip('\n')
WAVES = {1: "C01 C04 C06 C07 C09 C13 C15 C16 C18 C20 C28 C30", 2: "C02 C03 C10 C11 C12 C14 C17 C21 C26 C29 C31 C33", 3: "C05 C08 C19 C22 C23 C24 C25 C27 C32 C34 C35 C36"}
wave = {i: w for w, ids in WAVES.items() for i in ids.split()}
for i in "C03 C05 C14 C17 C19 C24 C29 C31 C32 C33 C35 C36".split():
    wave[i + "b"] = 4
for i in "C01 C02 C04 C06 C07 C08 C09 C10 C11 C12 C13 C15 C16 C18 C20 C21 C22 C23 C25 C26 C27 C28 C30 C34".split():
    wave[i + "b"] = 5
def cell(s, n):
    s = re.sub(r'\s+', ' ', s).replace('|', '\\|')
    return s if len(s) <= n else s[:n - 1] + '…'
rows = []
for pid in sorted(os.listdir(root)):
    mp = f'{root}/{pid}/meta.json'
    if not os.path.exists(mp):
        continue
    m = json.load(open(mp))
    demo = m['confirmed']['demonstration']
    demo = 'confirmed' if 'CONFIRMED: fails' in demo and 'NOT CONFIRMED' not in demo else ('pending' if demo == 'pending' else 'see confirm.txt')
    suite = 'passes' if m['confirmed']['existing_suite'].startswith('passes') else m['confirmed']['existing_suite']
    rows.append(f"| {pid} | {wave.get(pid, '?')} | {cell(m['summary'], 170)} | {cell(m['needs_to_manifest'], 150)} | {suite} / {demo} | {cell(m['verdict'], 160)} |")
out = head + '\n\n| seed | wave | breaks | needs | suite / demo | check verdict |\n|---|---|---|---|---|---|\n' + '\n'.join(rows) + '\n'
open(f'{root}/README.md', 'w').write(out)
print(len(rows), 'rows')
