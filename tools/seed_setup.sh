#!/bin/bash
# usage: tools/seed_setup.sh <ID>...   creates /tmp/seed-<ID>/{repo,out} (detached worktree of /repo HEAD)
for ID in "$@"; do
  D=/tmp/seed-$ID
  [ -d $D/repo ] && continue
  mkdir -p $D/out/demo
  git -C /repo worktree add --detach $D/repo HEAD >/dev/null 2>&1 && echo "created $D/repo"
done
