#!/bin/bash
# usage: tools/apply_fix.sh <patch> "<commit message starting with fix:>"
set -e
P=$(realpath "$1"); MSG="$2"
cd /repo
git apply --check "$P"
git apply "$P"
git add -A
git commit -q -m "$MSG"
echo "applied $(basename $P) as $(git log --format=%h -1)"
