#!/bin/bash
# usage: tools/run_all.sh <quick|thorough> [ids...]  -> one summary line per check
TIER=${1:-quick}; shift
IDS="$@"; [ -z "$IDS" ] && IDS=$(python3 -c "import json;print(' '.join(c['property_id'] for c in json.load(open('/verif/MANIFEST.json'))['checks']))")
cd /verif
for id in $IDS; do
  s=$(date +%s)
  out=$(./check $id $TIER 2>&1); rc=$?
  e=$(( $(date +%s) - s ))
  echo "$id exit=$rc total=${e}s $(echo "$out" | grep '^RESULT' | sed 's/property=[^ ]* //') viol_lines=$(echo "$out" | grep -c '^VIOLATION') known=$(echo "$out" | grep -c '^KNOWN-FINDING')"
  if [ $rc -ne 0 ]; then echo "$out" | grep -E '^VIOLATION|^MACHINERY' | head -4 | cut -c1-260; fi
done
