#!/bin/bash
# usage: tools/private_harness.sh <name>
# Creates a private scratch copy for testing a candidate change to samyama-graph without
# touching /repo: /tmp/pw-<name>/repo (detached git worktree of /repo HEAD),
# /tmp/pw-<name>/harness (copy of /verif/harness pointing at that worktree),
# /tmp/pw-<name>/target (copy of /verif/target so RocksDB is not rebuilt), /tmp/pw-<name>/out (VERIF_DIR).
# Remove with: tools/private_harness.sh --remove <name>
set -e
if [ "$1" = "--remove" ]; then
  N=$2; D=/tmp/pw-$N
  git -C /repo worktree remove --force $D/repo 2>/dev/null || true
  rm -rf $D; git -C /repo worktree prune; exit 0
fi
N=${1:?name}; D=/tmp/pw-$N
mkdir -p $D/out
git -C /repo worktree add --detach $D/repo HEAD >/dev/null
rsync -a /verif/harness/ $D/harness/
grep -rl '/repo' $D/harness/Cargo.toml $D/harness/src | xargs sed -i "s#/repo#$D/repo#g"
sed -i "s#/verif/target#$D/target#" $D/harness/.cargo/config.toml
cp -a /verif/target $D/target
cp -r /verif/known_findings.txt /verif/known_findings.d $D/out/ 2>/dev/null || true
echo "edit $D/repo, then:"
echo "  cd $D/harness && cargo build --release --offline --bin <cXX> && VERIF_DIR=$D/out $D/target/release/<cXX> quick"
echo "  (cd $D/repo && git diff) > /verif/fixes_proposed/<CXX>-<slug>.patch"
