#!/bin/bash
# usage: tools/try_repo_mutation.sh <patch> <check-id> [tier]
# Applies a patch to /repo's working tree, runs ./check with VERIF_DIR pointing at a scratch
# copy (so committed evidence is not overwritten), reverts /repo. Prints the verdict.
P=$(realpath "$1"); ID=$2; TIER=${3:-quick}
O=/verif/target/mut-out; rm -rf $O; mkdir -p $O/baselines
cp -r /verif/known_findings.txt /verif/known_findings.d $O/ 2>/dev/null; cp -r /verif/baselines/. $O/baselines/ 2>/dev/null
git -C /repo diff --quiet || { echo "/repo not clean"; exit 3; }
git -C /repo apply "$P" || { echo "APPLY-FAILED $P"; exit 3; }
trap 'git -C /repo checkout -q -- .' EXIT
VERIF_DIR=$O timeout 1800 /verif/check $ID $TIER > $O/run.log 2>&1; RC=$?
grep -E "^VIOLATION|^MACHINERY" $O/run.log | head -3 | cut -c1-300
echo "MUTATION $(basename $P) check=$ID tier=$TIER exit=$RC $(grep -c '^VIOLATION' $O/run.log) violation-lines"
