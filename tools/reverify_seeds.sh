#!/bin/bash
# usage: tools/reverify_seeds.sh [ids...]  Re-runs the quick tier of each seed's own check (C04b: C05) against the
# seeded change in the private worktree /tmp/pw-me (tools/try_mutation.sh) and prints one line per seed.
cd /verif
IDS="$@"; [ -z "$IDS" ] && IDS=$(ls seeded | grep '^C')
for s in $IDS; do
  prop=${s:0:3}; [ "$s" = "C04b" ] && prop=C05
  out=$(tools/try_mutation.sh me seeded/$s/patch.diff $prop quick 2>&1 | tail -1)
  echo "$s -> $out"
done
