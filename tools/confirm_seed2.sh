#!/bin/bash
# usage: tools/confirm_seed.sh <ID>...   For each seed in /verif/seeded/<ID>: in the scratch worktree
# /tmp/seed-base/repo run the demonstration WITH the change (must fail) and WITHOUT it (must pass).
# Writes /verif/seeded/<ID>/confirm.txt
W=/tmp/seed-base/repo
export CARGO_TARGET_DIR=/tmp/seed-base-target CARGO_INCREMENTAL=0
for ID in "$@"; do
  S=/verif/seeded/$ID
  cd $W && git checkout -q -- . && git clean -fdq tests crates/*/tests 2>/dev/null
  demo=$(ls $S/demo/*.rs | head -1); name=$(basename $demo .rs)
  # crate-level demo?
  pkg=""; dest=tests
  if grep -o "crates/[a-z][a-z-]*" $S/demo/README.md 2>/dev/null | head -1 | grep -q "crates/[a-z]"; then
     c=$(grep -o "crates/[a-z][a-z-]*" $S/demo/README.md | head -1); dest=$c/tests; pkg="-p $(basename $c)"; mkdir -p $dest
  fi
  cp $S/demo/*.rs $dest/
  git apply $S/patch.diff || { echo "$ID: APPLY FAILED" > $S/confirm.txt; continue; }
  rm -rf $CARGO_TARGET_DIR/debug/.fingerprint/samyama-*
  timeout 3000 cargo test --offline $pkg --test $name > /tmp/seed-base/with_$ID.log 2>&1; rc_with=$?
  changed=$(git diff --name-only)
  git checkout -q -- .
  rm -rf $CARGO_TARGET_DIR/debug/.fingerprint/samyama-*
  timeout 3000 cargo test --offline $pkg --test $name > /tmp/seed-base/without_$ID.log 2>&1; rc_without=$?
  {
    echo "seed $ID: demonstration $name ($dest)"
    echo "with the change   : exit $rc_with  :: $(grep -E '^test result' /tmp/seed-base/with_$ID.log | tail -1)"
    echo "without the change: exit $rc_without :: $(grep -E '^test result' /tmp/seed-base/without_$ID.log | tail -1)"
    if [ $rc_with -ne 0 ] && grep -q "^test result: FAILED" /tmp/seed-base/with_$ID.log && [ $rc_without -eq 0 ]; then echo "CONFIRMED: fails with the change, passes without it"; else echo "NOT CONFIRMED"; fi
  } > $S/confirm.txt
  cat $S/confirm.txt | tail -1 | sed "s/^/$ID: /"
  rm -f $dest/$name.rs; rm -f $CARGO_TARGET_DIR/debug/deps/${name}-*
done
