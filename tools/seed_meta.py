#!/usr/bin/env python3
"""Write /verif/seeded/<ID>/meta.json from the agent's meta + the orchestrator's verdict table (tools/seed_verdicts.json)."""
import json, os
verd = json.load(open('/verif/tools/seed_verdicts.json'))
for pid, v in verd.items():
    d = f'/verif/seeded/{pid}'
    if not os.path.isdir(d):
        continue
    a = json.load(open(f'{d}/meta_agent.json')) if os.path.exists(f'{d}/meta_agent.json') else {}
    confirm = open(f'{d}/confirm.txt').read().strip() if os.path.exists(f'{d}/confirm.txt') else 'pending'
    m = {"property": pid[:3],
         "origin": "written by an independent sub-agent that was given only the property text and a scratch worktree of /repo (nothing from /verif)",
         "summary": a.get('summary', ''),
         "needs_to_manifest": a.get('needs_to_manifest', ''),
         "files_touched": a.get('files_touched', []),
         "confirmed": {"applies_and_compiles": "yes (git apply on /repo HEAD; harness build with hooks on)",
                       "existing_suite": v.get('suite', 'pending'),
                       "demonstration": confirm},
         "checks_run": v['checks'],
         "verdict": v['verdict']}
    json.dump(m, open(f'{d}/meta.json', 'w'), indent=1)
    print('meta', pid)
