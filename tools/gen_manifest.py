#!/usr/bin/env python3
"""Regenerates /verif/MANIFEST.json from tools/checks.json (one record per claimed check)
and tools/not_applicable.json. Keeps the manifest valid at all times."""
import json, os, subprocess
here = os.path.dirname(os.path.abspath(__file__))
root = os.path.dirname(here)
checks = json.load(open(os.path.join(here, "checks.json")))
na = json.load(open(os.path.join(here, "not_applicable.json")))
props = [json.loads(l)["id"] for l in open(os.path.join(root, "properties.jsonl"))]
claimed = {c["id"] for c in checks}
na_ids = {n["property_id"] for n in na}
for p in props:
    if p not in claimed and p not in na_ids:
        na.append({"property_id": p, "reason": "check not built yet in this round (planned in DESIGN.md §2); not claimed"})
hook_commits = subprocess.run(["git", "-C", "/repo", "log", "--format=%h", "--grep=^verif hooks"], capture_output=True, text=True).stdout.split()
m = {
    "version": 1,
    "setup_cmd": "./setup.sh",
    "hooks": {
        "guard": "--cfg samyama_ai_samyama_graph_verif",
        "enable": "harness/.cargo/config.toml sets rustflags = [\"--cfg\", \"samyama_ai_samyama_graph_verif\"]; the harness depends on /repo by path, so every ./check rebuilds /repo's working tree with the hooks on",
        "baseline_off_cmd": "cd /repo && cargo nextest run --workspace --no-fail-fast --tool-config-file pb:/w/lib/nextest.toml --profile pb --test-threads 8 --offline",
        "source_commits": hook_commits,
        "add_only": True,
    },
    "engines": [
        {"name": "hx", "path": "harness/src/engine/hx.rs", "kind_free_text": "explicit-state BFS over operation histories of the real implementation, canonical-key deduplication, reference model compared on every transition", "serves_properties": [c["id"] for c in checks if c.get("engine") == "hx"]},
        {"name": "odometer", "path": "harness/src/engine/odometer.rs", "kind_free_text": "bounded-exhaustive deterministic enumeration of inputs/faults with exact cardinalities", "serves_properties": [c["id"] for c in checks if c.get("engine") == "odometer"]},
        {"name": "sched", "path": "harness/src/engine/sched.rs", "kind_free_text": "controlled scheduler for real OS threads at hook points; stateless DFS over all schedules with iterative preemption bound", "serves_properties": [c["id"] for c in checks if c.get("engine") == "sched"]},
        {"name": "subproc", "path": "harness/src/engine/subproc.rs", "kind_free_text": "re-exec'ed worker children so aborts/crash points are outcomes", "serves_properties": [c["id"] for c in checks if c.get("subproc")]},
    ],
    "checks": [],
    "not_applicable": sorted(na, key=lambda n: n["property_id"]),
    "notes": "All checks: ./check <ID> <quick|thorough> [--replay <file>]. Exit 0 held (KNOWN-FINDING lines possible), 1 VIOLATION, 2 machinery failure. Known findings: known_findings.txt. Design: DESIGN.md.",
}
for c in sorted(checks, key=lambda c: c["id"]):
    m["checks"].append({
        "property_id": c["id"],
        "quick_cmd": f"./check {c['id']} quick",
        "thorough_cmd": f"./check {c['id']} thorough",
        "evidence_file": f"/verif/evidence/{c['id']}.json",
        "replay_cmd_template": f"./check {c['id']} quick --replay {{path}}",
        "engine": c.get("engine", "odometer"),
        "level_claimed": {"category": c["level"], "text": c["text"], "design_ref": f"DESIGN.md §2 {c['id']}"},
        "level_note": c["note"],
        "technique": c["technique"],
    })
json.dump(m, open(os.path.join(root, "MANIFEST.json"), "w"), indent=1)
print("checks:", len(m["checks"]), "not_applicable:", len(m["not_applicable"]))
